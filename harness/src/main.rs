mod c01;
mod c02;
mod c03;
mod syncmsg;
mod c04;
mod c04sys;
mod c05;
mod c06;
mod c07api;
mod c08;
mod c09;
mod c09gossip;
mod c10;
mod c10net;
mod c11;
mod c11net;
mod c12;
mod live;
mod apinode;
mod c14;
mod storeops;
mod storeprops;
mod common;
mod world;

use std::path::PathBuf;

use common::*;

fn arg(args: &[String], name: &str) -> Option<String> {
    args.iter().position(|a| a == name).and_then(|i| args.get(i + 1).cloned())
}

fn listed_findings(prop: &str) -> Vec<String> {
    let path = std::env::var("VERIF_KNOWN_FINDINGS").unwrap_or("/verif/known_findings.json".into());
    let Ok(text) = std::fs::read_to_string(path) else { return vec![] };
    let Ok(v) = serde_json::from_str::<serde_json::Value>(&text) else { return vec![] };
    v["findings"]
        .as_array()
        .map(|a| {
            a.iter()
                .filter(|f| f["property"] == prop && f["status"] == "finding")
                .filter_map(|f| f["id"].as_str().map(|s| s.to_string()))
                .collect()
        })
        .unwrap_or_default()
}

fn run<P: Property>(p: P, args: &[String], quick_cases: usize, thorough_cases: usize) -> ! {
    if let Some(path) = arg(args, "--replay") {
        let ok = replay_property(&p, &PathBuf::from(path)).unwrap_or_else(|e| {
            println!("replay failed: {e:#}");
            false
        });
        println!("replay: {}", if ok { "no mismatch (case passes)" } else { "case fails" });
        std::process::exit(if ok { 0 } else { 1 });
    }
    let thorough = arg(args, "--tier").as_deref() == Some("thorough");
    let seed: u64 = arg(args, "--seed").and_then(|s| s.parse().ok()).unwrap_or(1);
    let cases = arg(args, "--cases")
        .and_then(|s| s.parse().ok())
        .unwrap_or(if thorough { thorough_cases } else { quick_cases });
    let cfg = RunCfg {
        seed,
        thorough,
        cases,
        replay_dir: PathBuf::from(arg(args, "--replay-dir").unwrap_or("/verif/replays".into())),
        threads: arg(args, "--threads").and_then(|s| s.parse().ok()).unwrap_or(12),
        budget_secs: std::env::var("VERIF_BUDGET_SECS").ok().and_then(|s| s.parse().ok()).unwrap_or(if thorough { 3000 } else { 300 }),
    };
    let out = arg(args, "--out").map(PathBuf::from);
    start_watchdog(p.id(), cfg.replay_dir.clone(), std::time::Duration::from_secs(std::env::var("VERIF_HANG_SECS").ok().and_then(|s| s.parse().ok()).unwrap_or(120)));
    match run_property(&p, &cfg) {
        Ok(report) => print_and_exit(&report, out.as_deref()),
        Err(e) => {
            println!("harness error: {e:#}");
            std::process::exit(2)
        }
    }
}

/// three harnesses under one property id (C07: the store, the store actor, the client API)
fn run3<P: Property, Q: Property, R: Property>(p: P, q: Q, r3: R, args: &[String], quick: (usize, usize, usize), thorough_n: (usize, usize, usize)) -> ! {
    if let Some(path) = arg(args, "--replay") {
        let path = PathBuf::from(path);
        let is_q = path.file_name().and_then(|f| f.to_str()).map(|f| f.contains(q.case_prefix()) && !q.case_prefix().is_empty()).unwrap_or(false);
        let is_r = path.file_name().and_then(|f| f.to_str()).map(|f| f.contains(r3.case_prefix()) && !r3.case_prefix().is_empty()).unwrap_or(false);
        let ok = if is_r { replay_property(&r3, &path) } else if is_q { replay_property(&q, &path) } else { replay_property(&p, &path) }.unwrap_or_else(|e| {
            println!("replay failed: {e:#}");
            false
        });
        println!("replay: {}", if ok { "no mismatch (case passes)" } else { "case fails" });
        std::process::exit(if ok { 0 } else { 1 });
    }
    let thorough = arg(args, "--tier").as_deref() == Some("thorough");
    let seed: u64 = arg(args, "--seed").and_then(|s| s.parse().ok()).unwrap_or(1);
    let mk = |cases: usize| RunCfg {
        seed,
        thorough,
        cases,
        replay_dir: PathBuf::from(arg(args, "--replay-dir").unwrap_or("/verif/replays".into())),
        threads: arg(args, "--threads").and_then(|s| s.parse().ok()).unwrap_or(12),
        budget_secs: std::env::var("VERIF_BUDGET_SECS").ok().and_then(|s| s.parse().ok()).unwrap_or(if thorough { 3000 } else { 300 }),
    };
    let out = arg(args, "--out").map(PathBuf::from);
    let cfg1 = mk(if thorough { thorough_n.0 } else { quick.0 });
    let cfg2 = mk(if thorough { thorough_n.1 } else { quick.1 });
    let cfg3 = mk(if thorough { thorough_n.2 } else { quick.2 });
    start_watchdog(p.id(), cfg1.replay_dir.clone(), std::time::Duration::from_secs(std::env::var("VERIF_HANG_SECS").ok().and_then(|s| s.parse().ok()).unwrap_or(120)));
    let r = run_property(&p, &cfg1)
        .and_then(|a| run_property(&q, &cfg2).map(|b| merge_reports(a, b, "actor")))
        .and_then(|a| run_property(&r3, &cfg3).map(|b| merge_reports(a, b, "api")));
    match r {
        Ok(report) => print_and_exit(&report, out.as_deref()),
        Err(e) => {
            println!("harness error: {e:#}");
            std::process::exit(2)
        }
    }
}

/// two harnesses under one property id (C10: scripted streams and a real connection)
fn run2<P: Property, Q: Property>(p: P, q: Q, tag: &str, args: &[String], quick: (usize, usize), thorough_n: (usize, usize)) -> ! {
    if let Some(path) = arg(args, "--replay") {
        let path = PathBuf::from(path);
        let is_q = path.file_name().and_then(|f| f.to_str()).map(|f| f.contains(q.case_prefix()) && !q.case_prefix().is_empty()).unwrap_or(false);
        let ok = if is_q { replay_property(&q, &path) } else { replay_property(&p, &path) }.unwrap_or_else(|e| {
            println!("replay failed: {e:#}");
            false
        });
        println!("replay: {}", if ok { "no mismatch (case passes)" } else { "case fails" });
        std::process::exit(if ok { 0 } else { 1 });
    }
    let thorough = arg(args, "--tier").as_deref() == Some("thorough");
    let seed: u64 = arg(args, "--seed").and_then(|s| s.parse().ok()).unwrap_or(1);
    let mk = |cases: usize| RunCfg {
        seed,
        thorough,
        cases,
        replay_dir: PathBuf::from(arg(args, "--replay-dir").unwrap_or("/verif/replays".into())),
        threads: arg(args, "--threads").and_then(|s| s.parse().ok()).unwrap_or(12),
        budget_secs: std::env::var("VERIF_BUDGET_SECS").ok().and_then(|s| s.parse().ok()).unwrap_or(if thorough { 3000 } else { 300 }),
    };
    let out = arg(args, "--out").map(PathBuf::from);
    let cfg1 = mk(if thorough { thorough_n.0 } else { quick.0 });
    let cfg2 = mk(if thorough { thorough_n.1 } else { quick.1 });
    start_watchdog(p.id(), cfg1.replay_dir.clone(), std::time::Duration::from_secs(std::env::var("VERIF_HANG_SECS").ok().and_then(|s| s.parse().ok()).unwrap_or(120)));
    let r = run_property(&p, &cfg1)
        .and_then(|a| run_property(&q, &cfg2).map(|b| merge_reports(a, b, tag)));
    match r {
        Ok(report) => print_and_exit(&report, out.as_deref()),
        Err(e) => {
            println!("harness error: {e:#}");
            std::process::exit(2)
        }
    }
}


/// any number of harnesses under one property id; the first one owns replays without a prefix
struct Part {
    prefix: &'static str,
    tag: &'static str,
    cases: (usize, usize),
    run: Box<dyn Fn(&RunCfg) -> anyhow::Result<RunReport>>,
    replay: Box<dyn Fn(&std::path::Path) -> anyhow::Result<bool>>,
}

fn part<P: Property + 'static>(p: P, tag: &'static str, cases: (usize, usize)) -> Part {
    let p = std::sync::Arc::new(p);
    let p2 = p.clone();
    Part {
        prefix: p.case_prefix(),
        tag,
        cases,
        run: Box::new(move |cfg| run_property(&*p, cfg)),
        replay: Box::new(move |path| replay_property(&*p2, path)),
    }
}

fn run_parts(id: &'static str, parts: Vec<Part>, args: &[String]) -> ! {
    if let Some(path) = arg(args, "--replay") {
        let path = PathBuf::from(path);
        let name = path.file_name().and_then(|f| f.to_str()).unwrap_or("").to_string();
        let idx = parts.iter().position(|p| !p.prefix.is_empty() && name.contains(p.prefix)).unwrap_or(0);
        let ok = (parts[idx].replay)(&path).unwrap_or_else(|e| {
            println!("replay failed: {e:#}");
            false
        });
        println!("replay: {}", if ok { "no mismatch (case passes)" } else { "case fails" });
        std::process::exit(if ok { 0 } else { 1 });
    }
    let thorough = arg(args, "--tier").as_deref() == Some("thorough");
    let seed: u64 = arg(args, "--seed").and_then(|s| s.parse().ok()).unwrap_or(1);
    let mk = |cases: usize| RunCfg {
        seed,
        thorough,
        cases,
        replay_dir: PathBuf::from(arg(args, "--replay-dir").unwrap_or("/verif/replays".into())),
        threads: arg(args, "--threads").and_then(|s| s.parse().ok()).unwrap_or(12),
        budget_secs: std::env::var("VERIF_BUDGET_SECS").ok().and_then(|s| s.parse().ok()).unwrap_or(if thorough { 3000 } else { 300 }),
    };
    let out = arg(args, "--out").map(PathBuf::from);
    start_watchdog(id, mk(0).replay_dir.clone(), std::time::Duration::from_secs(std::env::var("VERIF_HANG_SECS").ok().and_then(|s| s.parse().ok()).unwrap_or(120)));
    // `--cases N` (the search after a broken proof obligation) scales every part alike
    let scale = arg(args, "--cases").and_then(|s| s.parse::<usize>().ok());
    let mut report: Option<RunReport> = None;
    for p in &parts {
        let base = if thorough { p.cases.1 } else { p.cases.0 };
        let n = match scale { Some(c) => (c * base / parts[0].cases.0.max(1)).max(base), None => base };
        match (p.run)(&mk(n)) {
            Ok(r) => report = Some(match report.take() { None => r, Some(acc) => merge_reports(acc, r, p.tag) }),
            Err(e) => {
                println!("harness error: {e:#}");
                std::process::exit(2)
            }
        }
    }
    print_and_exit(&report.expect("at least one part"), out.as_deref())
}

fn main() {
    // panics inside cases are caught and reported; keep stderr quiet
    std::panic::set_hook(Box::new(|_| {}));
    let args: Vec<String> = std::env::args().collect();
    let prop = args.get(1).cloned().unwrap_or_default();
    match prop.as_str() {
        "C01" => run(c01::C01::new(), &args, 1500, 50000),
        "C02" => run(c02::C02::new(listed_findings("C02")), &args, 3000, 60000),
        "C03" => run(c03::C03::new(), &args, 1500, 40000),
        "C04" => run_parts("C04", vec![part(c04::C04::new(), "", (300, 6000)), part(c04sys::C04Sys::new(), "system", (6, 80)), part(live::Live::new("C04"), "live", (120, 2500))], &args),
        "C05" => run_parts("C05", vec![part(c05::C05::new(), "", (2500, 40000)), part(apinode::ApiNode::new("C05"), "node", (60, 1500))], &args),
        "C06" => run(c06::C06::new(), &args, 250, 4000),
        "C08" => run(c08::C08::new(), &args, 700, 20000),
        "C09" => run_parts("C09", vec![part(c09::C09::new(), "", (400, 8000)), part(c09gossip::C09Gossip::new(), "gossip", (400, 8000))], &args),
        "C10" => run_parts("C10", vec![part(c10::C10::new(), "", (300, 5000)), part(c10net::C10Net::new(), "connection", (60, 1500)), part(c14::C14::stopping(), "actor", (120, 2000))], &args),
        "C11" => run_parts("C11", vec![part(c11::C11::new(), "", (600, 10000)), part(c11net::C11Net::new(), "net", (24, 400)), part(live::Live::new("C11"), "live", (120, 2500))], &args),
        "C12" => run_parts("C12", vec![part(c12::C12::new(), "", (600, 10000)), part(apinode::ApiNode::new("C12"), "node", (60, 1500))], &args),
        "C13" => run(storeprops::StoreProp::new("C13"), &args, 2500, 40000),
        "C16" => run_parts("C16", vec![part(storeprops::StoreProp::new("C16"), "", (1500, 20000)), part(c14::C14::removal(), "actor", (300, 5000)), part(apinode::ApiNode::new("C16"), "node", (60, 1500))], &args),
        "C17" => run_parts("C17", vec![part(storeprops::StoreProp::new("C17"), "", (2000, 30000)), part(apinode::ApiNode::new("C17"), "node", (60, 1500)), part(c11::C11::registration(), "engine", (150, 3000)), part(live::Live::new("C17"), "live", (120, 2500))], &args),
        "C14" => run_parts("C14", vec![part(c14::C14::new(), "", (500, 8000)), part(apinode::ApiNode::new("C14"), "node", (60, 1500))], &args),
        "C15" => run_parts("C15", vec![part(storeprops::StoreProp::new("C15"), "", (2000, 30000)), part(apinode::ApiNode::new("C15"), "node", (60, 1500)), part(live::Live::new("C15"), "live", (120, 2500)), part(c12::C12::policies(), "events", (300, 6000))], &args),
        "LIVE" => run(live::Live::new("LIVE"), &args, 200, 4000),
        "NODE" => run(apinode::ApiNode::new("NODE"), &args, 60, 1500),
        "C18" => run(storeprops::StoreProp::new("C18"), &args, 300, 4000),
        "C07" => run3(storeprops::StoreProp::new("C07"), c14::C14::capabilities(), c07api::C07Api::new(), &args, (2000, 400, 150), (30000, 6000, 2500)),
        _ => {
            eprintln!("usage: verif-harness <property> [--tier quick|thorough] [--seed N] [--cases N] [--out file] [--replay file]");
            std::process::exit(2)
        }
    }
}
