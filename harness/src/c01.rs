//! C01 — pairwise reconciliation converges to the join of both replicas.
//!
//! Two real replicas (memory / file), built by histories of remote inserts, run a complete
//! session through `sync_initial_message` / `sync_process_message`; every message, every inserted
//! entry and the `SyncOutcome` counters are compared with the Lean model of the protocol on the
//! table model; the final sets are compared with the specification `join (A₀ ∪ B₀)`; a second
//! session must transfer nothing; counters must mirror.

use iroh_docs::sync::{ContentStatus, SyncOutcome};
use serde::{Deserialize, Serialize};

use crate::{c02::gen_key, common::*, syncmsg::*, world::*};

#[derive(Clone, Debug, Serialize, Deserialize)]
pub enum Op {
    Cfg {
        file_a: bool,
        file_b: bool,
        max_set: usize,
        split: usize,
        bob_initiates: bool,
        /// run the session through the network drivers (`run_alice` / `BobState::run` over a duplex
        /// pipe, two store actors) instead of calling the replicas directly
        #[serde(default)]
        net: bool,
        /// with `net`: over a real QUIC connection between two endpoints on the loopback interface,
        /// through `net::connect_and_sync` and `net::handle_connection`
        #[serde(default)]
        quic: bool,
    },
    /// remote insert into replica A (0), B (1) or both (2)
    Put { side: u8, a: usize, key: Vec<u8>, c: Option<usize>, ts: u64 },
}

pub struct C01 {
    pub keys: Keys,
}

pub const PEER_A: [u8; 32] = [0xA1; 32];
pub const PEER_B: [u8; 32] = [0xB2; 32];

impl C01 {
    pub fn new() -> Self {
        C01 { keys: Keys::new(1, 3) }
    }

    /// the same session through the network drivers: two store actors, `run_alice` on one side and
    /// `BobState::run` on the other, connected by an in-memory duplex pipe (default reconciliation
    /// parameters: the actors run on their own threads)
    fn execute_net(
        &self,
        sa: RealStore,
        sb: RealStore,
        nsid: iroh_docs::NamespaceId,
        nshex: &str,
        bob_initiates: bool,
        quic: bool,
        mut lines: Vec<Line>,
    ) -> anyhow::Result<Vec<Line>> {
        use iroh_docs::{
            actor::{OpenOpts, SyncHandle},
            net::{verif_codec::{run_alice, BobState}, AcceptOutcome},
        };
        iroh_docs::verif::set_clock_micros(Some(NOW));
        let rt = if quic {
            tokio::runtime::Builder::new_multi_thread().worker_threads(2).enable_all().build()?
        } else {
            tokio::runtime::Builder::new_current_thread().enable_time().build()?
        };
        let (fa, fb) = (sa.file, sb.file);
        // the initiator's store first
        let (init_store, resp_store, init_is_a) = if bob_initiates { (sb.store, sa.store, false) } else { (sa.store, sb.store, true) };
        let h_init = SyncHandle::spawn(init_store, None, "c01-init".into());
        let h_resp = SyncHandle::spawn(resp_store, None, "c01-resp".into());
        let pk_init = iroh::SecretKey::from_bytes(&[5u8; 32]).public();
        let pk_resp = iroh::SecretKey::from_bytes(&[6u8; 32]).public();
        let res: anyhow::Result<(Result<(u64, u64), String>, Result<(u64, u64), String>)> = rt.block_on(async {
            h_init.open(nsid, OpenOpts::default().sync()).await?;
            h_resp.open(nsid, OpenOpts::default().sync()).await?;
            if quic {
                // two real endpoints; the initiator dials the acceptor's loopback address
                use iroh::endpoint::{presets, Endpoint};
                let bind = |seed: u8, alpn: bool| async move {
                    let mut b = Endpoint::builder(presets::Minimal).secret_key(iroh::SecretKey::from_bytes(&[seed; 32]));
                    if alpn {
                        b = b.alpns(vec![iroh_docs::ALPN.to_vec()]);
                    }
                    b.bind().await.map_err(|e| anyhow::anyhow!("bind: {e}"))
                };
                let ep_init = bind(5, false).await?;
                let ep_resp = bind(6, true).await?;
                let port = ep_resp.bound_sockets().iter().find(|a| a.is_ipv4()).map(|a| a.port()).ok_or_else(|| anyhow::anyhow!("no ipv4 socket"))?;
                let addr = iroh::EndpointAddr::new(ep_resp.id()).with_ip_addr(std::net::SocketAddr::from(([127, 0, 0, 1], port)));
                let hr = h_resp.clone();
                let ep_resp2 = ep_resp.clone();
                let bob = async move {
                    let incoming = ep_resp2.accept().await.ok_or_else(|| "endpoint closed".to_string())?;
                    let conn = incoming.await.map_err(|e| format!("accept: {e:#}"))?;
                    let r = iroh_docs::net::handle_connection(hr, conn, |_ns, _peer| std::future::ready(AcceptOutcome::Allow), None).await;
                    r.map(|f| (f.outcome.num_recv as u64, f.outcome.num_sent as u64)).map_err(|e| format!("{e:#}"))
                };
                let hi = h_init.clone();
                let ep_init2 = ep_init.clone();
                let alice = async move {
                    let r = iroh_docs::net::connect_and_sync(&ep_init2, &hi, nsid, addr, None).await;
                    r.map(|f| (f.outcome.num_recv as u64, f.outcome.num_sent as u64)).map_err(|e| format!("{e:#}"))
                };
                let both = tokio::time::timeout(std::time::Duration::from_secs(60), async { tokio::join!(alice, bob) }).await;
                ep_init.close().await;
                ep_resp.close().await;
                return match both {
                    Ok((a, b)) => Ok((a, b)),
                    Err(_) => Ok((Err("timeout".into()), Err("timeout".into()))),
                };
            }
            let (p1, p2) = tokio::io::duplex(1 << 22);
            let (mut r1, mut w1) = tokio::io::split(p1);
            let (mut r2, mut w2) = tokio::io::split(p2);
            let hi = h_init.clone();
            let hr = h_resp.clone();
            let alice = async move {
                let r = run_alice(&mut w1, &mut r1, &hi, nsid, pk_resp).await;
                drop(w1);
                r.map(|o| (o.num_recv as u64, o.num_sent as u64)).map_err(|e| format!("{e:#}"))
            };
            let bob = async move {
                let mut state = BobState::new(pk_init);
                let r = state.run(&mut w2, &mut r2, hr, |_ns, _peer| std::future::ready(AcceptOutcome::Allow)).await;
                drop(w2);
                match r {
                    Ok(_) => {
                        let o = state.into_outcome();
                        Ok((o.num_recv as u64, o.num_sent as u64))
                    }
                    Err(e) => Err(format!("{e:#}")),
                }
            };
            let both = tokio::time::timeout(std::time::Duration::from_secs(30), async { tokio::join!(alice, bob) }).await;
            match both {
                Ok((a, b)) => Ok((a, b)),
                Err(_) => Ok((Err("timeout".into()), Err("timeout".into()))),
            }
        });
        let (alice, bob) = res?;
        // specification: both ends succeed and their counters mirror
        let line = match (&alice, &bob) {
            (Ok((ar, as_)), Ok((br, bs))) => {
                if ar == bs && as_ == br { "mirror=1".to_string() } else { format!("mirror=0:initiator-recv/sent={ar}/{as_},acceptor-recv/sent={br}/{bs}") }
            }
            (a, b) => format!("session-failed:initiator={a:?},acceptor={b:?}"),
        };
        lines.push(Line::oracle("sconst mirror=1", line));
        let mut init_store = rt.block_on(h_init.shutdown())?;
        let mut resp_store = rt.block_on(h_resp.shutdown())?;
        iroh_docs::verif::set_clock_micros(None);
        // specification: both replicas hold join(A0 ∪ B0)
        let (store_a, store_b) = if init_is_a { (&mut init_store, &mut resp_store) } else { (&mut resp_store, &mut init_store) };
        for store in [store_a, store_b] {
            let mut toks = Vec::new();
            for e in store.get_many(nsid, iroh_docs::store::Query::all().include_empty())? {
                let e = e?;
                toks.push(with_fp(stored_tok(&e), &e));
            }
            lines.push(Line::oracle("sjoin a b", entries_line(&toks)));
        }
        let _ = nshex;
        drop((fa, fb));
        Ok(lines)
    }
}

/// one side of a session on the real crate
pub struct Side<'a> {
    pub sid: usize,
    pub replica: iroh_docs::sync::Replica<'a>,
    pub rx: async_channel::Receiver<iroh_docs::sync::Event>,
    pub outcome: SyncOutcome,
    pub peer: [u8; 32],
}

impl<'a> Side<'a> {
    pub fn open(sid: usize, store: &'a mut iroh_docs::store::Store, ns: iroh_docs::NamespaceId, peer: [u8; 32]) -> anyhow::Result<Self> {
        let mut replica = store.open_replica(&ns)?;
        let (tx, rx) = async_channel::unbounded();
        replica.verif_info_mut().subscribe(tx);
        Ok(Side { sid, replica, rx, outcome: SyncOutcome::default(), peer })
    }
}

/// Run one complete session between two sides (initiator first); pushes the lines. Returns the
/// number of messages, or None if the budget was exceeded.
pub fn run_session<'s>(
    rt: &tokio::runtime::Runtime,
    init: &mut Side<'s>,
    resp: &mut Side<'s>,
    nshex: &str,
    cfg: (usize, usize),
    budget: usize,
    lines: &mut Vec<Line>,
) -> anyhow::Result<(Option<usize>, usize)> {
    let tok: EntryTok = &|e| with_fp(stored_tok(e), e);
    lines.push(Line::model(format!("oreset {}", init.sid), "ok"));
    lines.push(Line::model(format!("oreset {}", resp.sid), "ok"));
    let m0 = init.replica.sync_initial_message()?;
    let mut msg = MMsg::from_real(&m0);
    lines.push(Line::model(format!("tinit {} {}", init.sid, nshex), format!("msg {}", msg_tok(&msg, tok))));
    let mut real = m0;
    let mut n_msgs = 1usize;
    let mut transferred = msg.value_count();
    let mut to_resp = true;
    loop {
        let (side, from) = if to_resp { (&mut *resp, init.peer) } else { (&mut *init, resp.peer) };
        let reply = rt.block_on(side.replica.sync_process_message(real, from, &mut side.outcome))?;
        let inserted: Vec<_> = drain_remote(&side.rx).into_iter().map(|(e, s, _, _)| (e, s)).collect();
        let reply_m = reply.as_ref().map(MMsg::from_real);
        lines.push(Line::model(
            format!("tproc {} {} {} {} {} {}", side.sid, nshex, NOW, cfg.0, cfg.1, msg_tok(&msg, tok)),
            step_line(reply_m.as_ref(), &inserted, &side.outcome, tok),
        ));
        match reply {
            None => break,
            Some(r) => {
                n_msgs += 1;
                if n_msgs > budget {
                    return Ok((None, transferred));
                }
                msg = reply_m.unwrap();
                transferred += msg.value_count();
                real = r;
                to_resp = !to_resp;
            }
        }
    }
    Ok((Some(n_msgs), transferred))
}

impl Property for C01 {
    type Op = Op;
    fn id(&self) -> &'static str {
        "C01"
    }
    fn rule(&self) -> String {
        "pairs of replica states built by 0-10 remote inserts each (plus shared entries) over 3 authors, keys from {00,01,61,62,FE,FF}^0..3, 4 timestamps (ties, deletion markers newer/older than the peer's entries, empty key, 0xFF keys; in a twelfth of the cases all keys behind a 255-byte prefix), both initiators, memory and file stores, (split_factor, max_set_size) from {2,3,4,5}x{0,1,2,4}; a complete session, then a second one; non-trivial = the two starting sets differ and the session took at least 3 messages; distinct = distinct operation lists".into()
    }
    fn corpus(&self) -> Vec<(String, Vec<Op>)> {
        let p = |side: u8, a: usize, k: &[u8], c: Option<usize>, ts: u64| Op::Put { side, a, key: k.to_vec(), c, ts };
        let cfg = |bob: bool| Op::Cfg { file_a: false, file_b: false, max_set: 1, split: 2, bob_initiates: bob, net: false, quic: false };
        vec![
            // F1: a deletion marker newer than the peer's live entry below it
            ("f1-marker-vs-live-child".into(), vec![cfg(false), p(0, 0, b"a", None, 10), p(1, 0, b"ab", Some(0), 5)]),
            ("f1-marker-vs-live-child-bob".into(), vec![cfg(true), p(0, 0, b"a", None, 10), p(1, 0, b"ab", Some(0), 5), p(1, 0, b"ac", Some(1), 11)]),
            ("f2-ff-prefix".into(), vec![cfg(false), p(0, 0, &[1, 255], None, 9), p(1, 0, &[2], Some(0), 5), p(1, 0, &[1, 255, 3], Some(1), 5)]),
            ("empty-vs-many".into(), vec![cfg(false), p(1, 0, b"a", Some(0), 5), p(1, 1, b"b", Some(1), 5), p(1, 2, b"c", Some(2), 9), p(1, 0, b"", Some(0), 4)]),
            ("equal-sets".into(), vec![cfg(false), p(2, 0, b"a", Some(0), 5), p(2, 1, b"b", Some(1), 5), p(2, 1, b"c", None, 5)]),
            // keys beyond 4096 bytes reconcile like any other
            ("keys-beyond-4096-bytes".into(), vec![cfg(false), p(0, 0, &crate::c02::very_long_key(b"a"), Some(0), 5), p(0, 1, b"b", Some(1), 5), p(1, 0, &crate::c02::very_long_key(b"ab"), Some(2), 9), p(1, 2, b"c", Some(0), 5)]),
        ]
    }
    fn generate(&self, rng: &mut Rng, _i: usize, thorough: bool) -> Vec<Op> {
        let default_cfg = rng.chance(1, 2);
        let mut ops = vec![Op::Cfg {
            file_a: rng.chance(1, 6),
            file_b: rng.chance(1, 6),
            max_set: if default_cfg { 1 } else { *rng.pick(&[0usize, 1, 2, 4]) },
            split: if default_cfg { 2 } else { *rng.pick(&[2usize, 3, 4, 5]) },
            bob_initiates: rng.chance(1, 2),
            net: rng.chance(1, 5),
            quic: rng.chance(1, 3),
        }];
        let max = if thorough { 20 } else { 10 };
        let na = rng.range(0, max);
        let nb = rng.range(0, max);
        let nboth = rng.range(0, 6);
        let mut puts = Vec::new();
        for (side, n) in [(0u8, na), (1, nb), (2, nboth)] {
            for _ in 0..n {
                puts.push(Op::Put {
                    side,
                    a: rng.below(3),
                    key: gen_key(rng),
                    c: if rng.chance(1, 4) { None } else { Some(rng.below(3)) },
                    ts: *rng.pick(&crate::c02::TIMES),
                });
            }
        }
        if rng.chance(1, 12) {
            // long keys: every key behind a common 255-byte prefix
            // (a quarter of them beyond 4096 bytes; at most 6 entries then: every insert looks up every prefix)
            let very = thorough && rng.chance(1, 8);
            if very {
                puts.truncate(4);
            }
            for o in puts.iter_mut() {
                if let Op::Put { key, .. } = o {
                    *key = if very { crate::c02::very_long_key(key) } else { crate::c02::long_key(key) };
                }
            }
        }
        rng.shuffle(&mut puts);
        ops.extend(puts);
        ops
    }
    fn execute(&self, ops: &[Op]) -> anyhow::Result<Vec<Line>> {
        let (file_a, file_b, max_set, split, bob_initiates, net, quic) = match ops.first() {
            Some(Op::Cfg { file_a, file_b, max_set, split, bob_initiates, net, quic }) => (*file_a, *file_b, *max_set, *split, *bob_initiates, *net, *quic),
            _ => (false, false, 1, 2, false, false, false),
        };
        let rt = rt();
        set_clock(NOW);
        let ns = &self.keys.namespaces[0];
        let nsid = ns.id();
        let nshex = hex(nsid.as_bytes());
        let mut sa = RealStore::new(file_a)?;
        let mut sb = RealStore::new(file_b)?;
        let mut lines = vec![];
        for (sid, s) in [(1, &mut sa), (2, &mut sb)] {
            s.store.new_replica(ns.clone())?;
            s.store.close_replica(nsid);
            lines.push(Line::model(format!("tnew {sid}"), "ok"));
            lines.push(Line::model(format!("tns {sid} {nshex} 1 {}", hex(&ns.to_bytes())), "inserted"));
        }
        let (mut n_a, mut n_b) = (0usize, 0usize);
        for op in ops {
            if let Op::Put { side, a, key, c, ts } = op {
                let e = make_entry(ns, &self.keys.authors[*a], key, *c, *ts);
                for (sid, s, cnt) in [(1usize, &mut sa, &mut n_a), (2, &mut sb, &mut n_b)] {
                    if *side == 2 || *side as usize == sid - 1 {
                        let mut r = s.store.open_replica(&nsid)?;
                        let res = rt.block_on(r.insert_remote_entry(e.clone(), PEER, ContentStatus::Missing));
                        drop(r);
                        s.store.close_replica(nsid);
                        *cnt += 1;
                        lines.push(Line::model(format!("tput {sid} {}", honest_fp_tok(&e)), insert_result(res)));
                    }
                }
            }
        }
        lines.push(Line::model(format!("snap a 1 {nshex}"), "ok"));
        lines.push(Line::model(format!("snap b 2 {nshex}"), "ok"));
        if net {
            return self.execute_net(sa, sb, nsid, &nshex, bob_initiates, quic, lines);
        }
        iroh_docs::verif::set_thread_sync_config(Some((max_set, split)));
        let budget = 4 * (n_a + n_b) + 8;
        let res = (|| -> anyhow::Result<()> {
            let mut side_a = Side::open(1, &mut sa.store, nsid, PEER_A)?;
            let mut side_b = Side::open(2, &mut sb.store, nsid, PEER_B)?;
            for round in 0..2 {
                let (init, resp) = if bob_initiates { (&mut side_b, &mut side_a) } else { (&mut side_a, &mut side_b) };
                init.outcome = SyncOutcome::default();
                resp.outcome = SyncOutcome::default();
                let (n_msgs, transferred) = run_session(&rt, init, resp, &nshex, (max_set, split), budget, &mut lines)?;
                // specification: terminates within the budget
                lines.push(Line::oracle(
                    "sconst within-budget",
                    if n_msgs.is_some() { "within-budget".to_string() } else { format!("exceeded-{budget}-messages") },
                ));
                if n_msgs.is_none() {
                    return Ok(());
                }
                // specification: counters mirror
                let mirror = init.outcome.num_sent == resp.outcome.num_recv && resp.outcome.num_sent == init.outcome.num_recv;
                lines.push(Line::oracle("sconst mirror=1", format!("mirror={}", mirror as u8)));
                if round == 1 {
                    // specification: an immediately following session transfers no entries
                    lines.push(Line::oracle("sconst transferred=0", format!("transferred={transferred}")));
                }
            }
            Ok(())
        })();
        iroh_docs::verif::set_thread_sync_config(None);
        res?;
        // final sets: model, and the specification join(A0 ∪ B0)
        for (sid, s) in [(1, &mut sa), (2, &mut sb)] {
            let mut toks = Vec::new();
            for e in s.store.get_many(nsid, iroh_docs::store::Query::all().include_empty())? {
                let e = e?;
                toks.push(with_fp(stored_tok(&e), &e));
            }
            let d = entries_line(&toks);
            lines.push(Line::model(format!("tquery {sid} {nshex} flat-ak * any - 0 1 0"), d.clone()));
            lines.push(Line::oracle("sjoin a b", d));
        }
        Ok(lines)
    }
    fn features(&self, ops: &[Op], lines: &[Line]) -> Vec<String> {
        let mut f = vec![];
        if let Some(Op::Cfg { file_a, file_b, max_set, split, bob_initiates, net, quic }) = ops.first() {
            if *net && *quic {
                f.push("driver:network-quic".into());
            }
            if *net {
                f.push("driver:network".into());
            }
            f.push(format!("split:{split}"));
            f.push(format!("max_set:{max_set}"));
            f.push(format!("initiator:{}", if *bob_initiates { "B" } else { "A" }));
            f.push(format!("stores:{}{}", if *file_a { "F" } else { "M" }, if *file_b { "F" } else { "M" }));
        }
        let n = lines.iter().filter(|l| l.op.starts_with("tproc")).count();
        f.push(format!("messages:{}", match n { 0..=2 => "1-2", 3..=6 => "3-6", 7..=14 => "7-14", _ => "15+" }));
        if lines.iter().any(|l| l.op.starts_with("tproc") && l.imp.contains("|")) {
            f.push("multi-part-message".into());
        }
        if lines.iter().any(|l| l.op.starts_with("tproc") && l.imp.contains(" ins ") && !l.imp.contains(" ins - ")) {
            f.push("entries-transferred".into());
        }
        f
    }
    fn nontrivial(&self, _ops: &[Op], lines: &[Line]) -> bool {
        lines.iter().filter(|l| l.op.starts_with("tproc")).count() >= 4
    }
}
