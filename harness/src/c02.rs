//! C02 — replica state is an order-independent function of the entries offered.
//!
//! Real `Replica::insert` / `delete_prefix` / `insert_remote_entry` on a memory or file store
//! against `Spec.put` (model) and `Spec.join` (specification, `Props/C02.lean`).

use iroh_docs::sync::ContentStatus;
use serde::{Deserialize, Serialize};

use crate::{common::*, world::*};

#[derive(Clone, Debug, Serialize, Deserialize)]
pub enum Op {
    /// store kind; must be first (absent = memory)
    Open { file: bool },
    /// `Replica::insert` with the local clock set to `ts`
    Insert { a: usize, key: Vec<u8>, c: usize, ts: u64 },
    /// `Replica::delete_prefix` with the local clock set to `ts`
    Delete { a: usize, key: Vec<u8>, ts: u64 },
    /// `Replica::insert_remote_entry` of a signed entry (`c = None`: deletion marker)
    Remote { a: usize, key: Vec<u8>, c: Option<usize>, ts: u64 },
    /// like `Remote`, but the signed record claims `len + dlen` for the same hash (F11 witness)
    RemoteLen { a: usize, key: Vec<u8>, c: usize, dlen: u64, ts: u64 },
    /// flush, close and reopen the store (file stores)
    Reopen,
    /// `Replica::insert` with a half-empty or empty shape: 0 = empty hash with a length,
    /// 1 = a hash with length zero, 2 = empty hash and length zero (all refused: `EntryIsEmpty`)
    InsertRaw { a: usize, key: Vec<u8>, shape: u8, ts: u64 },
    /// an entry of the author id just below (0) or just above (1) author 0's id in byte order
    /// (hand-picked ids, stored through hook H6 without validation)
    Neighbour { which: u8, key: Vec<u8>, c: Option<usize>, ts: u64 },
}

pub struct C02 {
    pub keys: Keys,
    pub listed_findings: Vec<String>,
}

pub const KEY_BYTES: [u8; 6] = [0x00, 0x01, 0x61, 0x62, 0xFE, 0xFF];
pub const TIMES: [u64; 4] = [5, 9, 10, 11];

/// the shapes `Replica::insert` must refuse: (empty hash, length), (hash, zero length), (empty, zero)
pub fn half_empty(shape: u8) -> (iroh_blobs::Hash, u64) {
    match shape {
        0 => (iroh_blobs::Hash::EMPTY, 3),
        1 => (content(0).0, 0),
        _ => (iroh_blobs::Hash::EMPTY, 0),
    }
}

/// a key of 255 + |k| bytes: 255 times 0x61, then `k`
pub fn long_key(k: &[u8]) -> Vec<u8> {
    let mut v = vec![0x61u8; 255];
    v.extend_from_slice(k);
    v
}

/// a key beyond 4096 bytes: 4100 times 0x61, then `k`
pub fn very_long_key(k: &[u8]) -> Vec<u8> {
    let mut v = vec![0x61u8; 4100];
    v.extend_from_slice(k);
    v
}

pub fn gen_key(rng: &mut Rng) -> Vec<u8> {
    // short keys over a tiny alphabet so that prefixes, 0xFF edges and lexical neighbours are common
    let len = match rng.below(10) {
        0 => 0,
        1..=3 => 1,
        4..=7 => 2,
        _ => 3,
    };
    let mut k: Vec<u8> = (0..len).map(|_| *rng.pick(&KEY_BYTES)).collect();
    // bias towards x·FF and its lexical successor (x+1)
    if len >= 2 && rng.chance(1, 4) {
        k[len - 1] = 0xFF;
    }
    k
}

impl C02 {
    pub fn new(listed_findings: Vec<String>) -> Self {
        // author 0: an id ending in 0xFF when there is one (its byte-order successor needs a carry)
        let mut keys = Keys::new(1, 3);
        if let Some(i) = keys.authors.iter().position(|a| a.id().as_bytes()[31] == 0xFF) {
            keys.authors.swap(0, i);
        }
        C02 { keys, listed_findings }
    }
    fn gen_op(&self, rng: &mut Rng) -> Op {
        let a = rng.below(self.keys.authors.len());
        let key = gen_key(rng);
        let ts = *rng.pick(&TIMES);
        if rng.chance(1, 16) {
            return Op::InsertRaw { a, key, shape: rng.below(3) as u8, ts };
        }
        if rng.chance(1, 12) {
            return Op::Neighbour { which: rng.below(2) as u8, key, c: if rng.chance(1, 4) { None } else { Some(rng.below(3)) }, ts };
        }
        match rng.below(10) {
            0..=2 => Op::Insert { a, key, c: rng.below(3), ts },
            3..=4 => Op::Delete { a, key, ts },
            5..=7 => Op::Remote { a, key, c: Some(rng.below(3)), ts },
            _ => Op::Remote { a, key, c: None, ts },
        }
    }
}

impl Property for C02 {
    type Op = Op;
    fn id(&self) -> &'static str {
        "C02"
    }
    fn rule(&self) -> String {
        "sequences of 1-12 offers (author 0's id ends in 0xFF when the key pool has one; entries of the two author ids adjacent to it in byte order occur too; local insert, local insert of a half-empty or empty shape, prefix delete, remote insert; thorough: up to 24) by 3 authors over keys from {00,01,61,62,FE,FF}^0..3 and 4 timestamps (ties frequent), in a tenth of the cases every key behind a common 255-byte prefix (lengths 255-258), on memory and file stores; every third case is extended by a shuffled copy of (part of) itself, so duplicates and permutations occur; a case is non-trivial when at least one offer was rejected or removed another entry; distinct = distinct operation lists".into()
    }
    fn corpus(&self) -> Vec<(String, Vec<Op>)> {
        let t = |a: usize, k: &[u8], c: Option<usize>, ts: u64| Op::Remote { a, key: k.to_vec(), c, ts };
        vec![
            ("f1a-marker-then-older-child".into(), vec![t(0, b"a", None, 10), t(0, b"ab", Some(0), 5)]),
            ("f1a-older-child-then-marker".into(), vec![t(0, b"ab", Some(0), 5), t(0, b"a", None, 10)]),
            ("f1b-marker-then-older-same-key".into(), vec![t(0, b"a", None, 10), t(0, b"a", Some(0), 5)]),
            ("f1c-empty-key-parent".into(), vec![t(0, b"", Some(0), 10), t(0, b"ab", Some(1), 5)]),
            ("f2-ff-prefix-neighbour".into(), vec![
                t(0, &[2], Some(0), 5), t(0, &[1, 255, 3], Some(1), 5), t(0, &[1, 255], None, 9)]),
            ("f2-ff-prefix-neighbour-file".into(), vec![Op::Open { file: true },
                t(0, &[2], Some(0), 5), t(0, &[1, 255, 3], Some(1), 5), Op::Delete { a: 0, key: vec![1, 255], ts: 9 }]),
            ("keys-beyond-4096-bytes".into(), vec![
                t(0, &very_long_key(b"a"), Some(0), 5), t(0, &very_long_key(b"ab"), Some(1), 9), t(0, &very_long_key(b""), None, 9), t(1, &very_long_key(b"a"), Some(2), 10)]),
            ("other-author-untouched".into(), vec![
                t(1, b"ab", Some(0), 5), t(0, b"ab", Some(0), 5), t(0, b"a", None, 10)]),
            // known finding F11: value order and fingerprint ignore `len`
            ("f11-same-hash-different-len".into(), vec![
                Op::RemoteLen { a: 0, key: b"k".to_vec(), c: 0, dlen: 0, ts: 5 },
                Op::RemoteLen { a: 0, key: b"k".to_vec(), c: 0, dlen: 1, ts: 5 }]),
            ("tie-greater-hash-wins".into(), vec![
                t(0, b"k", Some(0), 5), t(0, b"k", Some(1), 5), t(0, b"k", Some(2), 5), t(0, b"k", Some(0), 5)]),
        ]
    }
    fn generate(&self, rng: &mut Rng, i: usize, thorough: bool) -> Vec<Op> {
        let max = if thorough { 24 } else { 12 };
        let n = rng.range(1, max);
        let mut ops: Vec<Op> = (0..n).map(|_| self.gen_op(rng)).collect();
        if i % 3 == 2 {
            // permutation with duplicates of itself: the final state must not depend on it;
            // (timestamps are part of the op, so local inserts re-create the same entries)
            let mut dup: Vec<Op> = ops.clone();
            rng.shuffle(&mut dup);
            dup.truncate(rng.range(1, dup.len()));
            ops.extend(dup);
            rng.shuffle(&mut ops);
        }
        if rng.chance(1, 5) {
            let at = rng.below(ops.len() + 1);
            ops.insert(at, Op::Reopen);
        }
        if rng.chance(1, 10) {
            // long keys: lengths 255-258, prefix relations across the 256-byte mark
            let very = thorough && rng.chance(1, 8);
            if very {
                ops.truncate(6);
            }
            for o in ops.iter_mut() {
                match o {
                    Op::Insert { key, .. } | Op::InsertRaw { key, .. } | Op::Delete { key, .. } | Op::Remote { key, .. } | Op::RemoteLen { key, .. } | Op::Neighbour { key, .. } => {
                        *key = if very { very_long_key(key) } else { long_key(key) };
                    }
                    _ => {}
                }
            }
        }
        let mut all = vec![Op::Open { file: rng.chance(1, 4) }];
        all.extend(ops);
        all
    }

    fn execute(&self, ops: &[Op]) -> anyhow::Result<Vec<Line>> {
        let file = matches!(ops.first(), Some(Op::Open { file: true }));
        let mut rs = RealStore::new(file)?;
        let rt = rt();
        let ns = &self.keys.namespaces[0];
        let nsid = ns.id();
        set_clock(NOW);
        rs.store.new_replica(ns.clone())?;
        rs.store.close_replica(nsid);
        let mut lines = vec![Line::model("new 1", "ok")];
        let mut seen: Vec<(usize, Vec<u8>)> = Vec::new();
        for op in ops {
            let (a, key, tok, res) = match op {
                Op::Open { .. } => continue,
                Op::Reopen => {
                    rs.reopen()?;
                    continue;
                }
                Op::Insert { a, key, c, ts } => {
                    let author = &self.keys.authors[*a];
                    let (hash, len) = content(*c);
                    set_clock(*ts);
                    let mut r = rs.store.open_replica(&nsid)?;
                    if key.len() % 2 == 1 {
                        // the same write through `hash_and_insert` (which hashes the bytes itself and does not
                        // report the number of removed entries)
                        let res = rt.block_on(r.hash_and_insert(key, author, format!("content-{c}")));
                        drop(r);
                        rs.store.close_replica(nsid);
                        let line = match res {
                            Ok(_) => "inserted".to_string(),
                            Err(e) => insert_result(Err(e)),
                        };
                        if !seen.contains(&(*a, key.clone())) {
                            seen.push((*a, key.clone()));
                        }
                        lines.push(Line::model(format!("putq 1 {}", honest_tok(&make_entry(ns, author, key, Some(*c), *ts))), line));
                        let d = dump(&mut rs.store, nsid)?;
                        lines.push(Line::model("dump 1", d.clone()));
                        lines.push(Line::oracle("join 1", d));
                        continue;
                    }
                    let res = rt.block_on(r.insert(key, author, hash, len));
                    drop(r);
                    rs.store.close_replica(nsid);
                    (a, key, honest_tok(&make_entry(ns, author, key, Some(*c), *ts)), res)
                }
                Op::Neighbour { which, key, c, ts } => {
                    let mut id = *self.keys.authors[0].id().as_bytes();
                    // predecessor / successor of the 32-byte id (with borrow / carry)
                    if *which == 0 {
                        for b in id.iter_mut().rev() {
                            if *b == 0 { *b = 0xFF; } else { *b -= 1; break; }
                        }
                    } else {
                        for b in id.iter_mut().rev() {
                            if *b == 0xFF { *b = 0; } else { *b += 1; break; }
                        }
                    }
                    let e = crate::storeops::raw_entry(&self.keys, nsid.as_bytes(), &id, key, *c, *ts);
                    let res = rs.store.verif_put_unvalidated(e.clone())?;
                    let imp = match res { Some(k) => format!("inserted {k}"), None => "notinserted".to_string() };
                    lines.push(Line::model(format!("put 1 {}", stored_tok(&e)), imp));
                    let d = dump(&mut rs.store, nsid)?;
                    lines.push(Line::model("dump 1", d.clone()));
                    lines.push(Line::oracle("join 1", d));
                    continue;
                }
                Op::InsertRaw { a, key, shape, ts } => {
                    let author = &self.keys.authors[*a];
                    let (hash, len) = half_empty(*shape);
                    set_clock(*ts);
                    let mut r = rs.store.open_replica(&nsid)?;
                    let res = rt.block_on(r.insert(key, author, hash, len));
                    drop(r);
                    rs.store.close_replica(nsid);
                    let e = iroh_docs::SignedEntry::from_parts(ns, author, key, iroh_docs::sync::Record::new(hash, len, *ts));
                    lines.push(Line::model(format!("insertlocal 1 {}", honest_tok(&e)), insert_result(res)));
                    let d = dump(&mut rs.store, nsid)?;
                    lines.push(Line::model("dump 1", d.clone()));
                    lines.push(Line::oracle("join 1", d));
                    continue;
                }
                Op::Delete { a, key, ts } => {
                    let author = &self.keys.authors[*a];
                    set_clock(*ts);
                    let mut r = rs.store.open_replica(&nsid)?;
                    let res = rt.block_on(r.delete_prefix(key, author));
                    drop(r);
                    rs.store.close_replica(nsid);
                    (a, key, honest_tok(&make_entry(ns, author, key, None, *ts)), res)
                }
                Op::Remote { a, key, c, ts } => {
                    let author = &self.keys.authors[*a];
                    let e = make_entry(ns, author, key, *c, *ts);
                    set_clock(NOW);
                    let mut r = rs.store.open_replica(&nsid)?;
                    let res = rt.block_on(r.insert_remote_entry(e.clone(), PEER, ContentStatus::Missing));
                    drop(r);
                    rs.store.close_replica(nsid);
                    (a, key, honest_tok(&e), res)
                }
                Op::RemoteLen { a, key, c, dlen, ts } => {
                    let author = &self.keys.authors[*a];
                    let (hash, len) = content(*c);
                    let e = iroh_docs::SignedEntry::from_parts(ns, author, key, iroh_docs::sync::Record::new(hash, len + dlen, *ts));
                    set_clock(NOW);
                    let mut r = rs.store.open_replica(&nsid)?;
                    let res = rt.block_on(r.insert_remote_entry(e.clone(), PEER, ContentStatus::Missing));
                    drop(r);
                    rs.store.close_replica(nsid);
                    (a, key, honest_tok(&e), res)
                }
            };
            if !seen.contains(&(*a, key.clone())) {
                seen.push((*a, key.clone()));
            }
            lines.push(Line::model(format!("put 1 {tok}"), insert_result(res)));
            let d = dump(&mut rs.store, nsid)?;
            lines.push(Line::model("dump 1", d.clone()));
            lines.push(Line::oracle("join 1", d));
        }
        // point lookups agree with the state
        for (a, key) in seen {
            let author = self.keys.authors[a].id();
            for incl in [true, false] {
                let got = rs.store.get_exact(nsid, author, &key, incl)?;
                let imp = match got {
                    Some(e) => format!("some {}", stored_tok(&e)),
                    None => "none".to_string(),
                };
                lines.push(Line::model(
                    format!("getexact 1 {} {} {} {}", hex(nsid.as_bytes()), hex(author.as_bytes()), hex(&key), incl as u8),
                    imp,
                ));
            }
        }
        Ok(lines)
    }

    fn features(&self, ops: &[Op], lines: &[Line]) -> Vec<String> {
        let mut f = Vec::new();
        if matches!(ops.first(), Some(Op::Open { file: true })) {
            f.push("file-store".into());
        } else {
            f.push("memory-store".into());
        }
        for o in ops {
            f.push(match o {
                Op::Open { .. } => continue,
                Op::Insert { .. } => "op:insert",
                Op::InsertRaw { .. } => "op:insert-half-empty",
                Op::Neighbour { .. } => "op:neighbour-author",
                Op::Delete { .. } => "op:delete-prefix",
                Op::Remote { c: Some(_), .. } => "op:remote-live",
                Op::Remote { c: None, .. } => "op:remote-marker",
                Op::RemoteLen { .. } => "op:remote-len-variant",
                Op::Reopen => "op:reopen",
            }.to_string());
        }
        for l in lines {
            if l.op.starts_with("put") {
                if l.imp == "notinserted" {
                    f.push("out:notinserted".into());
                } else if l.imp == "inserted 0" {
                    f.push("out:inserted-0".into());
                } else if l.imp.starts_with("inserted") {
                    f.push("out:inserted-removing".into());
                } else {
                    f.push(format!("out:{}", l.imp));
                }
            }
        }
        f.push(format!("len:{}", ops.len().min(30) / 5 * 5));
        f.sort();
        f.dedup();
        f
    }
    fn known_finding(&self, ops: &[Op], mm: &[Mismatch]) -> Option<String> {
        // F11: two offered entries equal in namespace, author, key, timestamp and hash but
        // different in length; only the specification (join) lines may differ
        if !self.listed_findings.iter().any(|f| f == "F11") || mm.iter().any(|m| !m.oracle) {
            return None;
        }
        let variants: Vec<_> = ops.iter().filter_map(|o| match o {
            Op::RemoteLen { a, key, c, dlen, ts } => Some((a, key, c, ts, dlen)),
            _ => None,
        }).collect();
        let hit = variants.iter().any(|x| variants.iter().any(|y| (x.0, x.1, x.2, x.3) == (y.0, y.1, y.2, y.3) && x.4 != y.4));
        hit.then(|| "F11 two validly signed entries equal in namespace, author, key, timestamp and hash but different in len: first arrival wins (value order ignores len)".to_string())
    }
    fn nontrivial(&self, _ops: &[Op], lines: &[Line]) -> bool {
        lines.iter().any(|l| l.op.starts_with("put") && l.imp != "inserted 0")
    }
}
