//! C07 at the client API (`DocsApi` / `Doc` in `src/api.rs`, handled by `RpcActor` in
//! `src/api/actor.rs`): one real in-memory docs node, one sequential client.
//!
//! Requests: import a read or write capability, open, close a handle, write or delete through a
//! handle (also one obtained before a later upgrade), drop, status, list. The model
//! (`Model/Rpc.lean`) replays every request; the specification is the history of answered
//! imports: a document is writable iff a write capability was imported since it last was dropped
//! (`swritable`, `scaps`).

use iroh::endpoint::{presets, Endpoint};
use iroh_docs::{
    api::{Doc, DocsApi},
    protocol::Docs,
    sync::Capability,
    CapabilityKind,
};
use n0_future::StreamExt;
use serde::{Deserialize, Serialize};

use crate::{c02::gen_key, common::*, world::*};

#[derive(Clone, Debug, Serialize, Deserialize)]
pub enum Op {
    Import { n: usize, write: bool },
    Open { n: usize },
    /// close the `h`-th live client handle of document n (modulo their number)
    Close { n: usize, h: usize },
    Set { n: usize, h: usize, a: usize, key: Vec<u8>, c: usize },
    Del { n: usize, h: usize, a: usize, key: Vec<u8> },
    Drop { n: usize },
    Status { n: usize, h: usize },
    List,
}

pub struct C07Api {
    pub keys: Keys,
}

impl C07Api {
    pub fn new() -> Self {
        C07Api { keys: Keys::new(3, 2) }
    }
}

fn err_kind(e: &anyhow::Error) -> String {
    let s = format!("{e:#}").to_lowercase();
    if s.contains("replica not open") {
        "err:not-open".into()
    } else if s.contains("read only") || s.contains("read access only") {
        "err:read-only".into()
    } else if s.contains("not found") {
        "err:not-found".into()
    } else if s.contains("not closed") {
        "err:not-closed".into()
    } else if s.contains("newer entry") {
        "notinserted".into()
    } else {
        format!("err:{s}")
    }
}

struct Node {
    api: DocsApi,
    docs: Docs,
    endpoint: Endpoint,
}

async fn spawn_node() -> anyhow::Result<Node> {
    let endpoint = Endpoint::builder(presets::Minimal).bind().await.map_err(|e| anyhow::anyhow!("bind: {e}"))?;
    let gossip = iroh_gossip::net::Gossip::builder().spawn(endpoint.clone());
    let blobs = iroh_blobs::store::mem::MemStore::new();
    let docs = Docs::memory().spawn(endpoint.clone(), (*blobs).clone(), gossip).await?;
    Ok(Node { api: docs.api().clone(), docs, endpoint })
}

async fn list(api: &DocsApi) -> anyhow::Result<Vec<(iroh_docs::NamespaceId, CapabilityKind)>> {
    let mut out = vec![];
    let mut s = api.list().await?;
    while let Some(item) = s.next().await {
        out.push(item?);
    }
    Ok(out)
}

impl Property for C07Api {
    type Op = Op;
    fn id(&self) -> &'static str {
        "C07"
    }
    fn case_prefix(&self) -> &'static str {
        "api-"
    }
    fn parallel(&self) -> bool {
        false
    }
    fn rule(&self) -> String {
        "CLIENT API PATH: sequences of 3-24 requests of one sequential client to a real in-memory docs node over three documents: import_namespace(read|write), open, close of one of the live handles, set_hash / del through one of the live handles (also handles obtained before a later upgrade), drop_doc, status, list; after every request the listed capability of each document and the outcome of every write are compared with the import history; non-trivial = at least one import of a write capability for a document that is open read-only, or a write refused as read-only".into()
    }
    fn corpus(&self) -> Vec<(String, Vec<Op>)> {
        vec![
            ("api-upgrade-while-open".into(), vec![
                Op::Import { n: 1, write: false },
                Op::Import { n: 0, write: false },
                Op::Set { n: 0, h: 0, a: 0, key: b"k".to_vec(), c: 0 },
                Op::Import { n: 0, write: true },
                Op::List,
                Op::Set { n: 0, h: 1, a: 0, key: b"k".to_vec(), c: 0 },
                Op::Set { n: 0, h: 0, a: 0, key: b"k2".to_vec(), c: 1 },
                Op::Set { n: 1, h: 0, a: 0, key: b"k".to_vec(), c: 0 },
                Op::Close { n: 0, h: 0 },
                Op::Close { n: 0, h: 0 },
                Op::Open { n: 0 },
                Op::Set { n: 0, h: 0, a: 1, key: b"k3".to_vec(), c: 2 },
                Op::Import { n: 0, write: false },
                Op::Set { n: 0, h: 1, a: 1, key: b"k4".to_vec(), c: 2 },
                Op::Status { n: 0, h: 0 },
                Op::List,
            ]),
            ("api-upgrade-while-closed".into(), vec![
                Op::Import { n: 0, write: false },
                Op::Set { n: 0, h: 0, a: 0, key: b"k".to_vec(), c: 0 },
                Op::Close { n: 0, h: 0 },
                Op::Import { n: 0, write: true },
                Op::Set { n: 0, h: 0, a: 0, key: b"k".to_vec(), c: 0 },
                Op::Drop { n: 0 },
                Op::Import { n: 0, write: false },
                Op::Set { n: 0, h: 0, a: 0, key: b"k".to_vec(), c: 0 },
                Op::List,
            ]),
        ]
    }
    fn generate(&self, rng: &mut Rng, _i: usize, thorough: bool) -> Vec<Op> {
        let max = if thorough { 24 } else { 14 };
        (0..rng.range(3, max))
            .map(|_| {
                let n = if rng.chance(2, 3) { 0 } else { rng.below(3) };
                let h = rng.below(3);
                let a = rng.below(2);
                match rng.below(16) {
                    0..=3 => Op::Import { n, write: rng.chance(1, 2) },
                    4..=5 => Op::Open { n },
                    6..=7 => Op::Close { n, h },
                    8..=11 => Op::Set { n, h, a, key: gen_key(rng), c: rng.below(3) },
                    12 => Op::Del { n, h, a, key: gen_key(rng) },
                    13 => Op::Drop { n },
                    14 => Op::Status { n, h },
                    _ => Op::List,
                }
            })
            .collect()
    }
    fn execute(&self, ops: &[Op]) -> anyhow::Result<Vec<Line>> {
        let rt = tokio::runtime::Builder::new_multi_thread().worker_threads(2).enable_all().build()?;
        iroh_docs::verif::set_clock_micros(Some(NOW));
        let keys = &self.keys;
        let res = rt.block_on(async {
            let node = spawn_node().await?;
            let api = &node.api;
            for a in &keys.authors {
                api.author_import(a.clone()).await?;
            }
            let mut lines = vec![Line::model("anew 1", "ok")];
            // the client's live handles per document
            let mut handles: Vec<Vec<Doc>> = vec![vec![], vec![], vec![]];
            let nsid = |n: usize| keys.namespaces[n].id();
            let nsh = |n: usize| hex(keys.namespaces[n].id().as_bytes());
            for op in ops {
                match op {
                    Op::Import { n, write } => {
                        let cap = if *write { Capability::Write(keys.namespaces[*n].clone()) } else { Capability::Read(nsid(*n)) };
                        let (kind, raw) = cap.raw();
                        let out = match api.import_namespace(cap).await {
                            Ok(doc) => {
                                handles[*n].push(doc);
                                "ok".to_string()
                            }
                            Err(e) => err_kind(&e),
                        };
                        lines.push(Line::model(format!("api 1 import {} {} {}", nsh(*n), kind, hex(&raw)), out.clone()));
                        if out == "ok" {
                            lines.push(Line::oracle(format!("shist 1 import {} {}", nsh(*n), kind), "ok"));
                        }
                    }
                    Op::Open { n } => {
                        let out = match api.open(nsid(*n)).await {
                            Ok(Some(doc)) => {
                                handles[*n].push(doc);
                                "ok".to_string()
                            }
                            Ok(None) => "none".into(),
                            Err(e) => err_kind(&e),
                        };
                        lines.push(Line::model(format!("api 1 open {}", nsh(*n)), out));
                    }
                    Op::Close { n, h } => {
                        if handles[*n].is_empty() {
                            continue;
                        }
                        let idx = *h % handles[*n].len();
                        let doc = handles[*n].remove(idx);
                        let out = match doc.close().await { Ok(()) => "ok".to_string(), Err(e) => err_kind(&e) };
                        lines.push(Line::model(format!("api 1 close {}", nsh(*n)), out));
                    }
                    Op::Set { n, h, a, key, c } => {
                        if handles[*n].is_empty() {
                            continue;
                        }
                        let doc = &handles[*n][*h % handles[*n].len()];
                        let e = make_entry(&keys.namespaces[*n], &keys.authors[*a], key, Some(*c), NOW);
                        let (hash, len) = content(*c);
                        let out = match doc.set_hash(keys.authors[*a].id(), key.clone(), hash, len).await {
                            Ok(()) => "inserted".to_string(),
                            Err(e) => err_kind(&e),
                        };
                        lines.push(Line::model(format!("api 1 setq {}", honest_tok(&e)), out.clone()));
                        // specification: the outcome of a write through an open handle is decided by the
                        // import history alone
                        match out.as_str() {
                            "inserted" | "notinserted" => lines.push(Line::oracle(format!("swritable 1 {}", nsh(*n)), "1")),
                            "err:read-only" => lines.push(Line::oracle(format!("swritable 1 {}", nsh(*n)), "0")),
                            _ => {}
                        }
                    }
                    Op::Del { n, h, a, key } => {
                        if handles[*n].is_empty() {
                            continue;
                        }
                        let doc = &handles[*n][*h % handles[*n].len()];
                        let e = make_entry(&keys.namespaces[*n], &keys.authors[*a], key, None, NOW);
                        let out = match doc.del(keys.authors[*a].id(), key.clone()).await {
                            Ok(k) => format!("inserted {k}"),
                            Err(e) => err_kind(&e),
                        };
                        lines.push(Line::model(format!("api 1 set {}", honest_tok(&e)), out.clone()));
                        if out.starts_with("inserted") {
                            lines.push(Line::oracle(format!("swritable 1 {}", nsh(*n)), "1"));
                        } else if out == "err:read-only" {
                            lines.push(Line::oracle(format!("swritable 1 {}", nsh(*n)), "0"));
                        }
                    }
                    Op::Drop { n } => {
                        let out = match api.drop_doc(nsid(*n)).await { Ok(()) => "ok".to_string(), Err(e) => err_kind(&e) };
                        lines.push(Line::model(format!("api 1 drop {}", nsh(*n)), out.clone()));
                        if out == "ok" {
                            lines.push(Line::oracle(format!("shist 1 drop {}", nsh(*n)), "ok"));
                        }
                    }
                    Op::Status { n, h } => {
                        if handles[*n].is_empty() {
                            continue;
                        }
                        let doc = &handles[*n][*h % handles[*n].len()];
                        let out = match doc.status().await {
                            Ok(s) => format!("state {} {} {}", s.sync as u8, s.subscribers, s.handles),
                            Err(e) => err_kind(&e),
                        };
                        lines.push(Line::model(format!("api 1 status {}", nsh(*n)), out));
                    }
                    Op::List => {}
                }
                // after every request: the listed capabilities (model: table order = id order;
                // specification: the import history)
                let mut l = list(api).await?;
                l.sort_by_key(|(id, _)| *id.as_bytes());
                let shown = format!(
                    "namespaces {}",
                    l.iter().map(|(id, k)| format!("{}={}", hex(id.as_bytes()), match k { CapabilityKind::Write => 1, CapabilityKind::Read => 2 })).collect::<Vec<_>>().join(";")
                );
                lines.push(Line::model("apilist 1", shown.clone()));
                lines.push(Line::oracle("scaps 1", shown));
            }
            iroh::protocol::ProtocolHandler::shutdown(&node.docs).await;
            node.endpoint.close().await;
            anyhow::Ok(lines)
        });
        iroh_docs::verif::set_clock_micros(None);
        res
    }
    fn features(&self, ops: &[Op], lines: &[Line]) -> Vec<String> {
        let mut f = vec![];
        for o in ops {
            f.push(format!("req:{}", format!("{o:?}").split([' ', '{']).next().unwrap_or("")));
        }
        for l in lines {
            if l.op.starts_with("api 1") {
                f.push(format!("reply:{}:{}", l.op.split(' ').nth(2).unwrap_or(""), l.imp.split(' ').next().unwrap()));
            }
        }
        if self.nontrivial(ops, lines) {
            f.push("upgrade-while-open-or-refused-write".into());
        }
        f.sort();
        f.dedup();
        f
    }
    fn nontrivial(&self, ops: &[Op], lines: &[Line]) -> bool {
        // an import of a write capability while the document is open read-only, or a refused write
        let mut open_ro = [false; 3];
        let mut writable = [false; 3];
        let mut nopen = [0usize; 3];
        let mut hit = lines.iter().any(|l| l.imp == "err:read-only");
        for o in ops {
            match o {
                Op::Import { n, write } => {
                    if *write && open_ro[*n] {
                        hit = true;
                    }
                    writable[*n] |= *write;
                    nopen[*n] += 1;
                    open_ro[*n] = !writable[*n];
                }
                Op::Close { n, .. } => {
                    nopen[*n] = nopen[*n].saturating_sub(1);
                    if nopen[*n] == 0 {
                        open_ro[*n] = false;
                    }
                }
                Op::Drop { n } => {
                    nopen[*n] = nopen[*n].saturating_sub(1);
                    if nopen[*n] == 0 {
                        open_ro[*n] = false;
                        writable[*n] = false;
                    }
                }
                _ => {}
            }
        }
        hit
    }
}
