//! Mirror of the (private) reconciliation message types, through their postcard encoding, and
//! the canonical text form shared with the Lean driver.

use iroh_docs::{
    sync::{ContentStatus, Event, ProtocolMessage, RecordIdentifier},
    SignedEntry,
};
use serde::{Deserialize, Serialize};

use crate::common::*;

#[derive(Clone, Debug, Serialize, Deserialize)]
pub struct MRange {
    pub x: RecordIdentifier,
    pub y: RecordIdentifier,
}

#[derive(Clone, Debug, Serialize, Deserialize)]
pub struct MFp {
    pub range: MRange,
    pub fingerprint: [u8; 32],
}

#[derive(Clone, Debug, Serialize, Deserialize)]
pub struct MItem {
    pub range: MRange,
    pub values: Vec<(SignedEntry, ContentStatus)>,
    pub have_local: bool,
}

#[derive(Clone, Debug, Serialize, Deserialize)]
pub enum MPart {
    RangeFingerprint(MFp),
    RangeItem(MItem),
}

#[derive(Clone, Debug, Serialize, Deserialize)]
pub struct MMsg {
    pub parts: Vec<MPart>,
}

impl MMsg {
    pub fn from_real(m: &ProtocolMessage) -> MMsg {
        let bytes = postcard::to_stdvec(m).expect("serialize message");
        postcard::from_bytes(&bytes).expect("mirror layout")
    }
    pub fn to_real(&self) -> Result<ProtocolMessage, postcard::Error> {
        let bytes = postcard::to_stdvec(self).expect("serialize mirror");
        postcard::from_bytes(&bytes)
    }
    pub fn value_count(&self) -> usize {
        self.parts
            .iter()
            .map(|p| match p {
                MPart::RangeItem(i) => i.values.len(),
                _ => 0,
            })
            .sum()
    }
}

/// `RangeEntry::as_fingerprint` of a signed entry
pub fn entry_fp(e: &SignedEntry) -> [u8; 32] {
    let mut h = blake3::Hasher::new();
    h.update(e.entry().namespace().as_bytes());
    h.update(e.entry().author().as_bytes());
    h.update(e.key());
    h.update(&e.timestamp().to_be_bytes());
    h.update(e.content_hash().as_bytes());
    *h.finalize().as_bytes()
}

pub fn status_num(s: ContentStatus) -> u8 {
    match s {
        ContentStatus::Complete => 0,
        ContentStatus::Incomplete => 1,
        ContentStatus::Missing => 2,
    }
}

/// How to print an entry: the 9 basic fields come from `tok`, the fingerprint is appended.
pub type EntryTok<'a> = &'a dyn Fn(&SignedEntry) -> String;

pub fn with_fp(base: String, e: &SignedEntry) -> String {
    format!("{},{}", base, hex(&entry_fp(e)))
}

pub fn honest_fp_tok(e: &SignedEntry) -> String {
    with_fp(honest_tok(e), e)
}

pub fn values_tok(vs: &[(SignedEntry, ContentStatus)], tok: EntryTok) -> String {
    if vs.is_empty() {
        "-".into()
    } else {
        vs.iter()
            .map(|(e, s)| format!("{}~{}", tok(e), status_num(*s)))
            .collect::<Vec<_>>()
            .join("/")
    }
}

pub fn msg_tok(m: &MMsg, tok: EntryTok) -> String {
    if m.parts.is_empty() {
        return "-".into();
    }
    m.parts
        .iter()
        .map(|p| match p {
            MPart::RangeFingerprint(f) => format!(
                "F;{};{};{}",
                hex(f.range.x.as_ref()),
                hex(f.range.y.as_ref()),
                hex(&f.fingerprint)
            ),
            MPart::RangeItem(i) => format!(
                "I;{};{};{};{}",
                hex(i.range.x.as_ref()),
                hex(i.range.y.as_ref()),
                i.have_local as u8,
                values_tok(&i.values, tok)
            ),
        })
        .collect::<Vec<_>>()
        .join("|")
}

/// drain remote-insert events from a subscriber channel
pub fn drain_remote(rx: &async_channel::Receiver<Event>) -> Vec<(SignedEntry, ContentStatus, bool, [u8; 32])> {
    let mut v = Vec::new();
    while let Ok(ev) = rx.try_recv() {
        if let Event::RemoteInsert {
            entry,
            remote_content_status,
            should_download,
            from,
            ..
        } = ev
        {
            v.push((entry, remote_content_status, should_download, from));
        }
    }
    v
}

pub fn heads_map_tok(h: &iroh_docs::AuthorHeads) -> String {
    let v: Vec<String> = h.iter().map(|(a, t)| format!("{}={}", hex(a.as_bytes()), t)).collect();
    if v.is_empty() {
        "-".into()
    } else {
        v.join(";")
    }
}

/// the line `tproc` answers with
pub fn step_line(
    reply: Option<&MMsg>,
    inserted: &[(SignedEntry, ContentStatus)],
    outcome: &iroh_docs::sync::SyncOutcome,
    tok: EntryTok,
) -> String {
    format!(
        "reply {} ins {} out {} {} {}",
        reply.map(|m| msg_tok(m, tok)).unwrap_or("none".into()),
        values_tok(inserted, tok),
        outcome.num_recv,
        outcome.num_sent,
        heads_map_tok(&outcome.heads_received)
    )
}
