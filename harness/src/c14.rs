//! C14 — the store actor honours open/close counting and the sync switch.
//!
//! 1-3 concurrent clients issue requests through clones of one real `SyncHandle`. The order in
//! which requests enter the actor's queue is recorded at the send site (single-threaded runtime:
//! a request is enqueued in the same poll in which it is logged); the Lean model of the actor is
//! run on that total order and must reproduce every reply.

use std::sync::{Arc, Mutex};

use iroh_docs::{
    actor::{OpenOpts, SyncHandle},
    sync::{Capability, ContentStatus},
};
use serde::{Deserialize, Serialize};

use crate::{c02::gen_key, common::*, syncmsg::*, world::*};

#[derive(Clone, Debug, Serialize, Deserialize)]
pub enum Req {
    Open { n: usize, sync: bool, sub: bool },
    Close { n: usize },
    SetSync { n: usize, sync: bool },
    Subscribe { n: usize },
    Local { n: usize, a: usize, key: Vec<u8>, c: usize, ts: u64 },
    Delete { n: usize, a: usize, key: Vec<u8>, ts: u64 },
    Remote { n: usize, a: usize, key: Vec<u8>, c: Option<usize>, ts: u64 },
    GetExact { n: usize, a: usize, key: Vec<u8>, incl: bool },
    GetMany { n: usize },
    SyncInit { n: usize },
    /// a reconciliation message: kind 0 = one item part over the whole document carrying one
    /// entry (have_local = false), kind 1 = the empty fingerprint over the whole document
    SyncProc { n: usize, a: usize, key: Vec<u8>, c: Option<usize>, ts: u64, kind: u8 },
    State { n: usize },
    Drop { n: usize },
    Import { n: usize, write: bool },
    Export { n: usize },
}

#[derive(Clone, Debug, Serialize, Deserialize)]
pub enum Op {
    /// initial capabilities of the documents: None = absent, Some(write?)
    Setup { docs: Vec<Option<bool>> },
    /// the request sequences of the concurrent clients
    Clients { seqs: Vec<Vec<Req>> },
    /// after the clients: requests whose caller stops waiting while they are still queued (a client
    /// that disconnects or times out). The actor is kept busy by a subscriber whose channel is full;
    /// meanwhile a local write and a set-sync are queued and abandoned; later requests have to
    /// reflect them.
    Abandoned,
}

pub struct C14 {
    pub keys: Keys,
    /// run as the actor-path part of C07 (capabilities): same executor, requests biased towards
    /// imports, local writes and exports; violations are reported under C07
    pub cap_mode: bool,
    /// run as the actor-path part of C16 (removal): requests biased towards several handles, drops,
    /// re-creation and reads; violations are reported under C16
    pub removal_mode: bool,
    /// run as the store-actor part of C10 ("whenever … the store actor stops during a session, both sides
    /// finish … never panic or wait forever"): the general request mix; violations are reported under C10
    pub stop_mode: bool,
}

impl C14 {
    pub fn new() -> Self {
        C14 { keys: Keys::new(3, 2), cap_mode: false, removal_mode: false, stop_mode: false }
    }
    pub fn capabilities() -> Self {
        C14 { keys: Keys::new(3, 2), cap_mode: true, removal_mode: false, stop_mode: false }
    }
    pub fn removal() -> Self {
        C14 { keys: Keys::new(3, 2), cap_mode: false, removal_mode: true, stop_mode: false }
    }
    pub fn stopping() -> Self {
        C14 { keys: Keys::new(3, 2), cap_mode: false, removal_mode: false, stop_mode: true }
    }
    fn gen_req(&self, rng: &mut Rng, client: usize) -> Req {
        let n = if rng.chance(2, 3) { 0 } else { rng.below(3) };
        let a = rng.below(2);
        // distinct clients write under distinct key prefixes so that local timestamps never tie
        let mut key = vec![0x70 + client as u8];
        key.extend(gen_key(rng));
        if self.removal_mode {
            return match rng.below(16) {
                0..=3 => Req::Open { n, sync: rng.chance(1, 2), sub: false },
                4..=5 => Req::Close { n },
                6..=7 => Req::Local { n, a, key, c: rng.below(3), ts: 0 },
                8..=10 => Req::Drop { n },
                11..=12 => Req::Import { n, write: true },
                13 => Req::GetMany { n },
                14 => Req::State { n },
                _ => Req::Remote { n, a, key, c: Some(rng.below(3)), ts: *rng.pick(&[5u64, 9, 10]) },
            };
        }
        if self.cap_mode {
            return match rng.below(16) {
                0..=2 => Req::Open { n, sync: rng.chance(1, 2), sub: false },
                3 => Req::Close { n },
                4..=7 => Req::Local { n, a, key, c: rng.below(3), ts: 0 },
                8 => Req::Delete { n, a, key, ts: 0 },
                9..=11 => Req::Import { n, write: rng.chance(1, 2) },
                12..=13 => Req::Export { n },
                14 => Req::Drop { n },
                _ => Req::Remote { n, a, key, c: Some(rng.below(3)), ts: *rng.pick(&[5u64, 9, 10]) },
            };
        }
        match rng.below(28) {
            24..=25 => Req::State { n },
            26 => Req::Import { n, write: true },
            27 => Req::Subscribe { n },
            0..=3 => Req::Open { n, sync: rng.chance(1, 2), sub: rng.chance(1, 3) },
            4..=6 => Req::Close { n },
            7 => Req::SetSync { n, sync: rng.chance(1, 2) },
            8 => Req::Subscribe { n },
            9..=11 => Req::Local { n, a, key, c: rng.below(3), ts: 0 },
            12 => Req::Delete { n, a, key, ts: 0 },
            13..=15 => Req::Remote { n, a, key, c: if rng.chance(1, 5) { None } else { Some(rng.below(3)) }, ts: *rng.pick(&[5u64, 9, 10]) },
            16 => Req::GetExact { n, a, key, incl: rng.chance(1, 2) },
            17 => Req::GetMany { n },
            18 => Req::SyncInit { n },
            19 => Req::SyncProc { n, a, key, c: if rng.chance(1, 5) { None } else { Some(rng.below(3)) }, ts: *rng.pick(&[5u64, 9, 10]), kind: rng.below(2) as u8 },
            20 => Req::State { n },
            21 => Req::Drop { n },
            22 => Req::Import { n, write: rng.chance(1, 2) },
            _ => Req::Export { n },
        }
    }
}

fn err_kind(e: &anyhow::Error) -> String {
    let s = format!("{e:#}").to_lowercase();
    if s.contains("replica not open") {
        "err:not-open".into()
    } else if s.contains("sync is not enabled") {
        "err:sync-disabled".into()
    } else if s.contains("read only") || s.contains("read access only") {
        "err:read-only".into()
    } else if s.contains("not found") {
        "err:not-found".into()
    } else if s.contains("not closed") {
        "err:not-closed".into()
    } else if s.contains("newer entry") {
        "notinserted".into()
    } else if s.contains("validation") || s.contains("signature") {
        "err:validation".into()
    } else {
        format!("err:{s}")
    }
}

impl Property for C14 {
    type Op = Op;
    fn id(&self) -> &'static str {
        if self.cap_mode { "C07" } else if self.removal_mode { "C16" } else if self.stop_mode { "C10" } else { "C14" }
    }
    fn parallel(&self) -> bool {
        false
    }
    fn case_prefix(&self) -> &'static str {
        if self.cap_mode || self.removal_mode || self.stop_mode { "actor-" } else { "" }
    }
    fn rule(&self) -> String {
        "1-3 concurrent clients, each a sequence of 2-12 requests (open with/without sync/subscribe, close, set-sync, subscribe, local insert/delete, remote insert, get, get-many, sync-initial-message, get-state, drop, import, export-secret) over 3 documents that start absent, read-only or writable; the recorded queue order is replayed on the Lean model of the actor; get_state after every request is compared with the history specification (usable iff opens - releases > 0); the store returned by shutdown is dumped; non-trivial = at least two clients interleaved or a document went through open -> close -> reuse".into()
    }
    fn corpus(&self) -> Vec<(String, Vec<Op>)> {
        vec![
            ("refused-drop-releases-a-handle".into(), vec![
                Op::Setup { docs: vec![Some(true), None, None] },
                Op::Clients { seqs: vec![vec![
                    Req::Open { n: 0, sync: false, sub: false }, Req::Open { n: 0, sync: true, sub: false },
                    Req::Drop { n: 0 }, Req::State { n: 0 }, Req::Close { n: 0 }, Req::State { n: 0 },
                    Req::Remote { n: 0, a: 0, key: b"k".to_vec(), c: Some(0), ts: 5 }, Req::Close { n: 0 },
                ]] },
            ]),
            ("abandoned-requests-are-applied".into(), vec![
                Op::Setup { docs: vec![Some(true), None, None] },
                Op::Clients { seqs: vec![vec![Req::Open { n: 0, sync: false, sub: false }, Req::State { n: 0 }]] },
                Op::Abandoned,
            ]),
            ("sync-sticky-and-gate".into(), vec![
                Op::Setup { docs: vec![Some(true), None, None] },
                Op::Clients { seqs: vec![vec![
                    Req::Open { n: 0, sync: false, sub: false }, Req::Remote { n: 0, a: 0, key: b"k".to_vec(), c: Some(0), ts: 5 },
                    Req::SyncInit { n: 0 }, Req::Open { n: 0, sync: true, sub: false }, Req::Open { n: 0, sync: false, sub: false },
                    Req::State { n: 0 }, Req::Remote { n: 0, a: 0, key: b"k".to_vec(), c: Some(0), ts: 5 }, Req::SetSync { n: 0, sync: false },
                    Req::Remote { n: 0, a: 0, key: b"j".to_vec(), c: Some(0), ts: 5 },
                    Req::SyncProc { n: 0, a: 0, key: b"m".to_vec(), c: Some(1), ts: 9, kind: 0 }, Req::SyncProc { n: 0, a: 0, key: vec![], c: None, ts: 5, kind: 1 },
                    Req::GetMany { n: 0 }, Req::SetSync { n: 0, sync: true },
                    Req::SyncProc { n: 0, a: 1, key: b"m".to_vec(), c: Some(1), ts: 9, kind: 0 }, Req::SyncProc { n: 0, a: 0, key: vec![], c: None, ts: 5, kind: 1 },
                    Req::GetMany { n: 0 },
                ]] },
            ]),
            // a slow reader of a query result (index 5 is read late, through a channel of one entry) and the
            // last handle released before it reads: the reply reflects the requests before it, complete
            ("query-reply-survives-the-last-close".into(), vec![
                Op::Setup { docs: vec![Some(true), None, None] },
                Op::Clients { seqs: vec![vec![
                    Req::Open { n: 0, sync: false, sub: false },
                    Req::Local { n: 0, a: 0, key: b"k1".to_vec(), c: 0, ts: 0 }, Req::Local { n: 0, a: 0, key: b"k2".to_vec(), c: 1, ts: 0 },
                    Req::Local { n: 0, a: 1, key: b"k3".to_vec(), c: 2, ts: 0 }, Req::Local { n: 0, a: 1, key: b"k4".to_vec(), c: 0, ts: 0 },
                    Req::GetMany { n: 0 }, Req::Close { n: 0 }, Req::State { n: 0 },
                ]] },
            ]),
            ("query-reply-survives-a-drop".into(), vec![
                Op::Setup { docs: vec![Some(true), None, None] },
                Op::Clients { seqs: vec![vec![
                    Req::Open { n: 0, sync: false, sub: false },
                    Req::Local { n: 0, a: 0, key: b"k1".to_vec(), c: 0, ts: 0 }, Req::Local { n: 0, a: 0, key: b"k2".to_vec(), c: 1, ts: 0 },
                    Req::Local { n: 0, a: 1, key: b"k3".to_vec(), c: 2, ts: 0 }, Req::Local { n: 0, a: 1, key: b"k4".to_vec(), c: 0, ts: 0 },
                    Req::GetMany { n: 0 }, Req::Drop { n: 0 },
                ]] },
            ]),
            ("upgrade-while-open-keeps-subscribers".into(), vec![
                Op::Setup { docs: vec![Some(false), None, None] },
                Op::Clients { seqs: vec![vec![
                    Req::Open { n: 0, sync: true, sub: true }, Req::Subscribe { n: 0 }, Req::Open { n: 0, sync: false, sub: false }, Req::State { n: 0 },
                    Req::Import { n: 0, write: true }, Req::State { n: 0 }, Req::Local { n: 0, a: 0, key: b"k".to_vec(), c: 0, ts: 0 }, Req::State { n: 0 },
                    Req::Import { n: 0, write: false }, Req::State { n: 0 },
                ]] },
            ]),
            ("upgrade-while-open".into(), vec![
                Op::Setup { docs: vec![Some(false), None, None] },
                Op::Clients { seqs: vec![vec![
                    Req::Open { n: 0, sync: true, sub: false }, Req::Local { n: 0, a: 0, key: b"k".to_vec(), c: 0, ts: 0 }, Req::Export { n: 0 },
                    Req::Import { n: 0, write: true }, Req::Export { n: 0 }, Req::Local { n: 0, a: 0, key: b"k".to_vec(), c: 0, ts: 0 },
                    Req::Import { n: 0, write: false }, Req::Export { n: 0 }, Req::Close { n: 0 }, Req::Open { n: 0, sync: false, sub: false }, Req::Export { n: 0 },
                ]] },
            ]),
        ]
    }
    fn generate(&self, rng: &mut Rng, _i: usize, thorough: bool) -> Vec<Op> {
        let docs = (0..3).map(|i| if i == 0 || rng.chance(1, 2) { Some(rng.chance(2, 3)) } else { None }).collect();
        let nclients = rng.range(1, 3);
        let max = if thorough { 20 } else { 12 };
        let seqs = (0..nclients).map(|c| (0..rng.range(2, max)).map(|_| self.gen_req(rng, c)).collect()).collect();
        let mut ops = vec![Op::Setup { docs }, Op::Clients { seqs }];
        if !self.cap_mode && !self.removal_mode && rng.chance(1, 5) {
            ops.push(Op::Abandoned);
        }
        ops
    }
    fn execute(&self, ops: &[Op]) -> anyhow::Result<Vec<Line>> {
        let rt = tokio::runtime::Builder::new_current_thread().enable_time().build()?;
        iroh_docs::verif::set_clock_micros(Some(NOW));
        let mut store = iroh_docs::store::Store::memory();
        let mut lines = vec![Line::model("anew 1", "ok")];
        for a in &self.keys.authors {
            store.import_author(a.clone())?;
        }
        let mut seqs: Vec<Vec<Req>> = vec![];
        for op in ops {
            match op {
                Op::Setup { docs } => {
                    for (n, d) in docs.iter().enumerate() {
                        if let Some(write) = d {
                            let ns = &self.keys.namespaces[n];
                            let cap = if *write { Capability::Write(ns.clone()) } else { Capability::Read(ns.id()) };
                            let (kind, raw) = cap.raw();
                            store.import_namespace(cap)?;
                            lines.push(Line::model(format!("act 1 import {} {} {}", hex(ns.id().as_bytes()), kind, hex(&raw)), "ok"));
                        }
                    }
                }
                Op::Clients { seqs: s } => seqs = s.clone(),
                Op::Abandoned => {}
            }
        }
        let handle = SyncHandle::spawn(store, None, "c14".into());
        // local timestamps: a global counter so that the model knows each entry's timestamp
        let clock = Arc::new(Mutex::new(NOW));
        let log: Arc<Mutex<Vec<(usize, usize, String)>>> = Default::default(); // (client, idx, model command)
        let results: Arc<Mutex<Vec<Vec<Option<String>>>>> = Arc::new(Mutex::new(seqs.iter().map(|s| vec![None; s.len()]).collect()));
        let keys = &self.keys;
        // channels of subscribers are kept alive until the end of the case
        let keep: Arc<Mutex<Vec<async_channel::Receiver<iroh_docs::sync::Event>>>> = Default::default();
        let slow_specs: Arc<Mutex<Vec<Line>>> = Default::default();
        let res: anyhow::Result<()> = rt.block_on(async {
            let mut tasks = vec![];
            let n_clients = seqs.len();
            for (ci, seq) in seqs.iter().cloned().enumerate() {
                let slow_specs = slow_specs.clone();
                let handle = handle.clone();
                let log = log.clone();
                let results = results.clone();
                let clock = clock.clone();
                let keep = keep.clone();
                let namespaces: Vec<_> = keys.namespaces.clone();
                let authors: Vec<_> = keys.authors.clone();
                tasks.push(tokio::task::spawn(async move {
                    let mut late = vec![];
                    let single_client = n_clients == 1;
                    for (i, req) in seq.iter().enumerate() {
                        let nsx = |n: usize| namespaces[n].id();
                        let nsh = |n: usize| hex(namespaces[n].id().as_bytes());
                        let out: String = match req {
                            Req::Open { n, sync, sub } => {
                                let mut opts = OpenOpts::default();
                                if *sync { opts = opts.sync(); }
                                if *sub {
                                    let (tx, rx) = async_channel::unbounded();
                                    keep.lock().unwrap().push(rx);
                                    opts = opts.subscribe(tx);
                                }
                                log.lock().unwrap().push((ci, i, format!("act 1 open {} {} {}", nsh(*n), *sync as u8, *sub as u8)));
                                match handle.open(nsx(*n), opts).await { Ok(()) => "ok".into(), Err(e) => err_kind(&e) }
                            }
                            Req::Close { n } => {
                                log.lock().unwrap().push((ci, i, format!("act 1 close {}", nsh(*n))));
                                match handle.close(nsx(*n)).await { Ok(b) => format!("ok {}", b as u8), Err(e) => err_kind(&e) }
                            }
                            Req::SetSync { n, sync } => {
                                log.lock().unwrap().push((ci, i, format!("act 1 setsync {} {}", nsh(*n), *sync as u8)));
                                match handle.set_sync(nsx(*n), *sync).await { Ok(()) => "ok".into(), Err(e) => err_kind(&e) }
                            }
                            Req::Subscribe { n } => {
                                let (tx, rx) = async_channel::unbounded();
                                keep.lock().unwrap().push(rx);
                                log.lock().unwrap().push((ci, i, format!("act 1 sub {}", nsh(*n))));
                                match handle.subscribe(nsx(*n), tx).await { Ok(()) => "ok".into(), Err(e) => err_kind(&e) }
                            }
                            Req::Local { n, a, key, c, .. } => {
                                // the entry's timestamp is the clock when the actor runs the request;
                                // the clock is advanced under the log lock so that queue order = time order
                                let ts = *clock.lock().unwrap(); // the clock stands still: outcomes depend on queue order only
                                let e = make_entry(&namespaces[*n], &authors[*a], key, Some(*c), ts);
                                log.lock().unwrap().push((ci, i, format!("act 1 localq {}", honest_fp_tok(&e))));
                                let (hash, len) = content(*c);
                                match handle.insert_local(nsx(*n), authors[*a].id(), key.clone().into(), hash, len).await {
                                    Ok(()) => "inserted".into(), Err(e) => err_kind(&e) }
                            }
                            Req::Delete { n, a, key, .. } => {
                                let ts = *clock.lock().unwrap(); // the clock stands still: outcomes depend on queue order only
                                let e = make_entry(&namespaces[*n], &authors[*a], key, None, ts);
                                log.lock().unwrap().push((ci, i, format!("act 1 local {}", honest_fp_tok(&e))));
                                match handle.delete_prefix(nsx(*n), authors[*a].id(), key.clone().into()).await {
                                    Ok(k) => format!("inserted {k}"), Err(e) => err_kind(&e) }
                            }
                            Req::Remote { n, a, key, c, ts } => {
                                let e = make_entry(&namespaces[*n], &authors[*a], key, *c, *ts);
                                log.lock().unwrap().push((ci, i, format!("act 1 remoteq {} {} {}", nsh(*n), NOW, honest_fp_tok(&e))));
                                match handle.insert_remote(nsx(*n), e, PEER, ContentStatus::Missing).await {
                                    Ok(()) => "inserted".into(), Err(e) => err_kind(&e) }
                            }
                            Req::GetExact { n, a, key, incl } => {
                                log.lock().unwrap().push((ci, i, format!("act 1 getexact {} {} {} {}", nsh(*n), hex(authors[*a].id().as_bytes()), hex(key), *incl as u8)));
                                match handle.get_exact(nsx(*n), authors[*a].id(), key.clone().into(), *incl).await {
                                    Ok(Some(e)) => format!("some {}", with_fp(stored_tok(&e), &e)), Ok(None) => "none".into(), Err(e) => err_kind(&e) }
                            }
                            Req::GetMany { n } if (i + ci) % 2 == 1 => {
                                // a slow reader: the reply stream has room for one entry and is read only after all
                                // later requests of this client (which may close the document) — the reply still
                                // reflects the state at the time of the request, complete
                                log.lock().unwrap().push((ci, i, format!("act 1 getmany {}", nsh(*n))));
                                let (tx, rx) = irpc::channel::mpsc::channel(1);
                                match handle.get_many(nsx(*n), iroh_docs::store::Query::all().include_empty().build(), tx).await {
                                    Err(e) => err_kind(&e),
                                    Ok(()) => {
                                        // with a single client nothing can slip in between: a fast reader asking the
                                        // same right now is the specification of what the slow one has to see
                                        let mut fast: Option<String> = None;
                                        if single_client {
                                            let (tx2, mut rx2) = irpc::channel::mpsc::channel(64);
                                            if handle.get_many(nsx(*n), iroh_docs::store::Query::all().include_empty().build(), tx2).await.is_ok() {
                                                let mut toks = vec![];
                                                let mut err = None;
                                                while let Ok(Some(item)) = rx2.recv().await {
                                                    match item {
                                                        Ok(e) => toks.push(with_fp(stored_tok(&e), &e)),
                                                        Err(e) => { err = Some(err_kind(&anyhow::anyhow!("{e}"))); }
                                                    }
                                                }
                                                fast = Some(err.unwrap_or_else(|| entries_line(&toks)));
                                            }
                                        }
                                        late.push((i, rx, fast));
                                        continue;
                                    }
                                }
                            }
                            Req::GetMany { n } => {
                                log.lock().unwrap().push((ci, i, format!("act 1 getmany {}", nsh(*n))));
                                let (tx, mut rx) = irpc::channel::mpsc::channel(64);
                                match handle.get_many(nsx(*n), iroh_docs::store::Query::all().include_empty().build(), tx).await {
                                    Err(e) => err_kind(&e),
                                    Ok(()) => {
                                        let mut toks = vec![];
                                        let mut err = None;
                                        while let Ok(Some(item)) = rx.recv().await {
                                            match item {
                                                Ok(e) => toks.push(with_fp(stored_tok(&e), &e)),
                                                Err(e) => { err = Some(err_kind(&anyhow::anyhow!("{e}"))); }
                                            }
                                        }
                                        err.unwrap_or_else(|| entries_line(&toks))
                                    }
                                }
                            }
                            Req::SyncInit { n } => {
                                log.lock().unwrap().push((ci, i, format!("act 1 syncinit {}", nsh(*n))));
                                match handle.sync_initial_message(nsx(*n)).await { Ok(_) => "ok".into(), Err(e) => err_kind(&e) }
                            }
                            Req::SyncProc { n, a, key, c, ts, kind } => {
                                let zero = iroh_docs::sync::RecordIdentifier::default();
                                let range = MRange { x: zero.clone(), y: zero };
                                let part = if *kind == 0 {
                                    let e = make_entry(&namespaces[*n], &authors[*a], key, *c, *ts);
                                    MPart::RangeItem(MItem { range, values: vec![(e, ContentStatus::Missing)], have_local: false })
                                } else {
                                    MPart::RangeFingerprint(MFp { range, fingerprint: [0u8; 32] })
                                };
                                let m = MMsg { parts: vec![part] };
                                fn mtok(m: &MMsg) -> String {
                                    let tok: EntryTok = &|e| with_fp(stored_tok(e), e);
                                    msg_tok(m, tok)
                                }
                                log.lock().unwrap().push((ci, i, format!("act 1 syncproc {} {} {}", nsh(*n), NOW, mtok(&m))));
                                let real = m.to_real().expect("message mirror");
                                match handle.sync_process_message(nsx(*n), real, PEER, Default::default()).await {
                                    Ok((reply, _)) => format!("reply {}", reply.map(|r| mtok(&MMsg::from_real(&r))).unwrap_or_else(|| "none".into())),
                                    Err(e) => err_kind(&e),
                                }
                            }
                            Req::State { n } => {
                                log.lock().unwrap().push((ci, i, format!("act 1 state {}", nsh(*n))));
                                match handle.get_state(nsx(*n)).await {
                                    Ok(s) => format!("state {} {} {}", s.sync as u8, s.subscribers, s.handles), Err(e) => err_kind(&e) }
                            }
                            Req::Drop { n } => {
                                log.lock().unwrap().push((ci, i, format!("act 1 drop {}", nsh(*n))));
                                match handle.drop_replica(nsx(*n)).await { Ok(()) => "ok".into(), Err(e) => err_kind(&e) }
                            }
                            Req::Import { n, write } => {
                                let cap = if *write { Capability::Write(namespaces[*n].clone()) } else { Capability::Read(namespaces[*n].id()) };
                                let (kind, raw) = cap.raw();
                                log.lock().unwrap().push((ci, i, format!("act 1 import {} {} {}", nsh(*n), kind, hex(&raw))));
                                match handle.import_namespace(cap).await { Ok(_) => "ok".into(), Err(e) => err_kind(&e) }
                            }
                            Req::Export { n } => {
                                log.lock().unwrap().push((ci, i, format!("act 1 export {}", nsh(*n))));
                                match handle.export_secret_key(nsx(*n)).await { Ok(s) => format!("secret {}", hex(&s.to_bytes())), Err(e) => err_kind(&e) }
                            }
                        };
                        results.lock().unwrap()[ci][i] = Some(out);
                    }
                    // the slow reader reads now
                    for (i, mut rx, fast) in late {
                        let mut toks = vec![];
                        let mut err = None;
                        while let Ok(Some(item)) = rx.recv().await {
                            match item {
                                Ok(e) => toks.push(with_fp(stored_tok(&e), &e)),
                                Err(e) => { err = Some(err_kind(&anyhow::anyhow!("{e}"))); }
                            }
                        }
                        let slow = err.unwrap_or_else(|| entries_line(&toks));
                        if let Some(fast) = fast {
                            slow_specs.lock().unwrap().push(Line::oracle(
                                "sconst slow-reader-sees-what-a-fast-reader-sees",
                                if fast == slow { "slow-reader-sees-what-a-fast-reader-sees".to_string() } else { format!("slow-reader-got:{}:fast-reader-got:{}", slow.split(' ').nth(1).unwrap_or("?"), fast.split(' ').nth(1).unwrap_or("?")) },
                            ));
                        }
                        results.lock().unwrap()[ci][i] = Some(slow);
                    }
                }));
            }
            for t in tasks {
                t.await?;
            }
            Ok(())
        });
        res?;
        // the recorded queue order with each request's reply
        let order = log.lock().unwrap().clone();
        let results = results.lock().unwrap().clone();
        let mut flat: Vec<(String, String)> = order.iter().map(|(ci, i, cmd)| (cmd.clone(), results[*ci][*i].clone().unwrap_or_else(|| "no-reply".into()))).collect();
        if ops.iter().any(|o| matches!(o, Op::Abandoned)) {
            let extra = rt.block_on(abandoned_gadget(&handle, &self.keys))?;
            flat.extend(extra.lines);
            for l in extra.oracles {
                lines.push(l);
            }
        }
        lines.extend(slow_specs.lock().unwrap().drain(..));
        for (cmd, out) in &flat {
            let out = out.clone();
            lines.push(Line::model(cmd.clone(), out.clone()));
            // specification (C07): a local write or a secret-key export succeeds iff a write
            // capability was imported for the document since it was (re-)created
            let toks: Vec<&str> = cmd.split(' ').collect();
            let doc = match toks.get(2).copied() {
                Some("localq") | Some("local") => toks.get(3).and_then(|t| t.split(',').next()).map(|s| s.to_string()),
                Some("export") => toks.get(3).map(|s| s.to_string()),
                _ => None,
            };
            // specification (C14): the sync switch follows the history of acknowledged requests
            // (first open sets it, further opens only enable it, set-sync sets it), and the
            // sync-gated requests succeed exactly while it is on
            let sync_obs: Option<(String, &str)> = match toks.get(2).copied() {
                Some("state") => out.strip_prefix("state ").and_then(|r| r.split(' ').next()).map(|s| (toks[3].to_string(), if s == "1" { "1" } else { "0" })),
                Some("remoteq") | Some("syncinit") | Some("syncproc") => {
                    if out == "err:sync-disabled" {
                        Some((toks[3].to_string(), "0"))
                    } else if out == "inserted" || out == "notinserted" || out == "ok" || out.starts_with("reply ") {
                        Some((toks[3].to_string(), "1"))
                    } else {
                        None
                    }
                }
                _ => None,
            };
            if let Some((doc, obs)) = sync_obs {
                lines.push(Line::oracle(format!("ssync 1 {doc}"), obs));
            }
            // specification (C14): close reports whether the document is closed afterwards, i.e. whether
            // the history of acknowledged opens and releases leaves it without a handle
            if toks.get(2).copied() == Some("close") && out.starts_with("ok ") {
                lines.push(Line::oracle(format!("sclose 1 {}", toks[3]), out.clone()));
            }
            // specification (C16 / C14): dropping a document is refused exactly while another handle
            // holds it open (the drop itself releases one handle)
            if toks.get(2).copied() == Some("drop") {
                let obs = if out == "ok" { Some("allowed") } else if out == "err:not-closed" { Some("refused") } else { None };
                if let Some(obs) = obs {
                    lines.push(Line::oracle(format!("sdrop 1 {}", toks[3]), obs));
                }
            }
            // specification (C14, "replies reflect all earlier requests"): the subscriber count in a
            // state reply is the number of acknowledged subscriptions since the document became open
            if toks.get(2).copied() == Some("state") {
                if let Some(n) = out.strip_prefix("state ").and_then(|r| r.split(' ').nth(1)) {
                    lines.push(Line::oracle(format!("ssubs 1 {}", toks[3]), n.to_string()));
                }
            }
            if let Some(doc) = doc {
                if out == "abandoned" {
                    continue;
                }
                let writable = if out.starts_with("inserted") || out == "notinserted" || out.starts_with("secret") {
                    Some("1")
                } else if out == "err:read-only" {
                    Some("0")
                } else {
                    None
                };
                if let Some(wr) = writable {
                    lines.push(Line::oracle(format!("swritable 1 {doc}"), wr));
                }
            }
        }
        // specification: usable iff opens - releases > 0 (observed through get_state)
        let final_states: Vec<String> = rt.block_on(async {
            let mut v = vec![];
            for n in 0..3 {
                v.push(match handle.get_state(self.keys.namespaces[n].id()).await {
                    Ok(s) => format!("usable handles={}", s.handles),
                    Err(_) => "closed".to_string(),
                });
            }
            v
        });
        for n in 0..3 {
            let nsh = hex(self.keys.namespaces[n].id().as_bytes());
            lines.push(Line::model(format!("act 1 state {nsh}"), "skip"));
            lines.pop();
            lines.push(Line::oracle(format!("shandles 1 {nsh}"), final_states[n].clone()));
        }
        // shutdown hands back the store with every acknowledged write; a request that is already
        // queued behind the shutdown must be answered (with an error), not left waiting (F14)
        // … also when the shutdown arrives behind a backlog of requests (every other case: 24 state requests
        // are queued right in front of it)
        let backlog = if lines.len() % 2 == 0 { 24usize } else { 0 };
        let (answered, store, queued) = rt.block_on(async {
            let h2 = handle.clone();
            let id = self.keys.namespaces[0].id();
            let before: Vec<_> = (0..backlog)
                .map(|_| {
                    let h = handle.clone();
                    tokio::spawn(async move { tokio::time::timeout(std::time::Duration::from_secs(5), h.get_state(id)).await.is_ok() })
                })
                .collect();
            // let the spawned requests be sent (each task runs up to its wait for the reply)
            tokio::task::yield_now().await;
            let shutdown = handle.shutdown();
            let state = h2.get_state(id);
            let (store, queued) = tokio::join!(shutdown, async { tokio::time::timeout(std::time::Duration::from_secs(5), state).await });
            let mut n = 0usize;
            for t in before {
                if matches!(t.await, Ok(true)) {
                    n += 1;
                }
            }
            ((n, ()), store, queued)
        });
        lines.push(Line::oracle(
            "sconst queued-behind-shutdown-is-answered",
            if queued.is_ok() { "queued-behind-shutdown-is-answered" } else { "request-queued-behind-shutdown-never-answered" },
        ));
        lines.push(Line::oracle(
            "sconst backlog-before-shutdown-is-answered",
            if answered.0 == backlog { "backlog-before-shutdown-is-answered".to_string() } else { format!("{}-of-{}-requests-in-front-of-the-shutdown-answered", answered.0, backlog) },
        ));
        lines.push(Line::oracle(
            "sconst shutdown-hands-back-the-store",
            if store.is_ok() { "shutdown-hands-back-the-store" } else { "shutdown-failed-store-lost" },
        ));
        let mut store = store?;
        iroh_docs::verif::set_clock_micros(None);
        let mut toks = vec![];
        for ns in {
            let mut v: Vec<_> = self.keys.namespaces.iter().map(|n| n.id()).collect();
            v.sort_by_key(|n| *n.as_bytes());
            v
        } {
            for e in store.get_many(ns, iroh_docs::store::Query::all().include_empty())? {
                let e = e?;
                toks.push(with_fp(stored_tok(&e), &e));
            }
        }
        lines.push(Line::model("adump 1", entries_line(&toks)));
        // specification (C07, and C14's "a store containing every acknowledged write"): in the store handed
        // back, a document is writable iff its write capability was ever imported since it was created —
        // an acknowledged upgrade is never lost, whatever was imported afterwards
        {
            let mut v = vec![];
            for item in store.list_namespaces()? {
                let (id, kind) = item?;
                v.push((hex(id.as_bytes()), match kind { iroh_docs::CapabilityKind::Write => 1, iroh_docs::CapabilityKind::Read => 2 }));
            }
            v.sort();
            lines.push(Line::oracle("scaps 1", format!("namespaces {}", v.iter().map(|(n, k)| format!("{n}={k}")).collect::<Vec<_>>().join(";"))));
        }
        Ok(lines)
    }
    fn features(&self, ops: &[Op], lines: &[Line]) -> Vec<String> {
        let mut f = vec![];
        for o in ops {
            if let Op::Clients { seqs } = o {
                f.push(format!("clients:{}", seqs.len()));
                for r in seqs.iter().flatten() {
                    f.push(format!("req:{}", format!("{r:?}").split([' ', '{']).next().unwrap_or("")));
                }
            }
        }
        for l in lines {
            if l.op.starts_with("act 1") {
                f.push(format!("reply:{}", l.imp.split(' ').next().unwrap()));
            }
        }
        f.sort();
        f.dedup();
        f
    }
    fn nontrivial(&self, ops: &[Op], lines: &[Line]) -> bool {
        let clients = ops.iter().map(|o| if let Op::Clients { seqs } = o { seqs.len() } else { 0 }).max().unwrap_or(0);
        clients >= 2 || lines.iter().filter(|l| l.op.starts_with("act 1 close") && l.imp == "ok 1").count() >= 1
    }
}


struct Gadget {
    lines: Vec<(String, String)>,
    oracles: Vec<Line>,
}

/// see `Op::Abandoned`
async fn abandoned_gadget(handle: &SyncHandle, keys: &Keys) -> anyhow::Result<Gadget> {
    use std::time::Duration;
    let ns = &keys.namespaces[0];
    let nsid = ns.id();
    let nsh = hex(nsid.as_bytes());
    let author = &keys.authors[0];
    let mut g = Gadget { lines: vec![], oracles: vec![] };
    let opened = match handle.open(nsid, OpenOpts::default()).await { Ok(()) => "ok".to_string(), Err(e) => err_kind(&e) };
    g.lines.push((format!("act 1 open {nsh} 0 0"), opened.clone()));
    if opened != "ok" {
        return Ok(g);
    }
    let entry = |key: &[u8]| make_entry(ns, author, key, Some(0), NOW);
    let (hash, len) = content(0);
    // a subscriber whose channel holds one event
    let (tx, rx) = async_channel::bounded::<iroh_docs::sync::Event>(1);
    g.lines.push((format!("act 1 sub {nsh}"), match handle.subscribe(nsid, tx.clone()).await { Ok(()) => "ok".into(), Err(e) => err_kind(&e) }));
    // the first write fills the channel (if the document is writable)
    let w1 = match handle.insert_local(nsid, author.id(), b"zz-g1".to_vec().into(), hash, len).await { Ok(()) => "inserted".to_string(), Err(e) => err_kind(&e) };
    g.lines.push((format!("act 1 localq {}", honest_fp_tok(&entry(b"zz-g1"))), w1.clone()));
    if w1 != "inserted" {
        // read-only: nothing blocks the actor; the abandoned requests are still requests
        drop(rx);
        return Ok(g);
    }
    // the second write makes the actor wait for room in the channel
    let w2 = {
        let handle = handle.clone();
        let id = author.id();
        tokio::spawn(async move { handle.insert_local(nsid, id, b"zz-g2".to_vec().into(), hash, len).await.map_err(|e| format!("{e:#}")) })
    };
    tokio::time::sleep(Duration::from_millis(30)).await;
    // queued behind it, and given up by their callers
    let abandoned_write = tokio::time::timeout(Duration::from_millis(30), handle.insert_local(nsid, author.id(), b"zz-g3".to_vec().into(), hash, len)).await;
    let abandoned_sync = tokio::time::timeout(Duration::from_millis(30), handle.set_sync(nsid, true)).await;
    let really_abandoned = abandoned_write.is_err() && abandoned_sync.is_err();
    // the caller of the write that is waiting for room in the channel gives up as well
    w2.abort();
    let _ = w2.await;
    tokio::time::sleep(Duration::from_millis(60)).await;
    // now the subscriber reads
    let drainer = tokio::spawn(async move {
        let mut n = 0usize;
        while let Ok(Ok(_)) = tokio::time::timeout(Duration::from_secs(5), rx.recv()).await {
            n += 1;
            if n >= 3 {
                break;
            }
        }
        (n, rx)
    });
    g.lines.push((format!("actdrop 1 localq {}", honest_fp_tok(&entry(b"zz-g2"))), "abandoned".into()));
    g.lines.push((format!("actdrop 1 localq {}", honest_fp_tok(&entry(b"zz-g3"))), "abandoned".into()));
    g.lines.push((format!("actdrop 1 setsync {nsh} 1"), "abandoned".into()));
    // later requests reflect the abandoned ones
    let got = match handle.get_exact(nsid, author.id(), b"zz-g3".to_vec().into(), false).await {
        Ok(Some(e)) => format!("some {}", with_fp(stored_tok(&e), &e)),
        Ok(None) => "none".into(),
        Err(e) => err_kind(&e),
    };
    g.lines.push((format!("act 1 getexact {nsh} {} {} 0", hex(author.id().as_bytes()), hex(b"zz-g3")), got.clone()));
    let state = match handle.get_state(nsid).await { Ok(s) => format!("state {} {} {}", s.sync as u8, s.subscribers, s.handles), Err(e) => err_kind(&e) };
    let (_n, rx) = drainer.await.map_err(|e| anyhow::anyhow!("drainer: {e}"))?;
    g.lines.push((format!("act 1 state {nsh}"), state.clone()));
    // the write that was waiting for room when its caller gave up is applied as well
    let got2 = match handle.get_exact(nsid, author.id(), b"zz-g2".to_vec().into(), false).await {
        Ok(Some(e)) => format!("some {}", with_fp(stored_tok(&e), &e)),
        Ok(None) => "none".into(),
        Err(e) => err_kind(&e),
    };
    g.lines.push((format!("act 1 getexact {nsh} {} {} 0", hex(author.id().as_bytes()), hex(b"zz-g2")), got2.clone()));
    if really_abandoned {
        g.oracles.push(Line::oracle(
            "sconst abandoned-requests-are-reflected-by-later-replies",
            if got.starts_with("some") && got2.starts_with("some") && state.starts_with("state 1") { "abandoned-requests-are-reflected-by-later-replies".to_string() } else { format!("later-replies-miss-abandoned-requests:{}:{}", got.split(' ').next().unwrap_or(""), state.replace(' ', "-")) },
        ));
    }
    // an additional open whose subscriber has already gone away: accepted or refused, it must not be half done
    {
        let handles_of = |s: &str| s.rsplit(' ').next().and_then(|h| h.parse::<usize>().ok());
        let (dtx, drx) = async_channel::unbounded::<iroh_docs::sync::Event>();
        drop(drx);
        let opened = match handle.open(nsid, OpenOpts::default().sync().subscribe(dtx)).await { Ok(()) => "ok".to_string(), Err(e) => err_kind(&e) };
        g.lines.push((format!("act 1 open {nsh} 1 1"), opened.clone()));
        let state2 = match handle.get_state(nsid).await { Ok(s) => format!("state {} {} {}", s.sync as u8, s.subscribers, s.handles), Err(e) => err_kind(&e) };
        g.lines.push((format!("act 1 state {nsh}"), state2.clone()));
        if let (Some(h0), Some(h1)) = (handles_of(&state), handles_of(&state2)) {
            let ok = if opened == "ok" { h1 == h0 + 1 } else { h1 == h0 };
            g.oracles.push(Line::oracle("sconst an-open-adds-a-handle-iff-it-succeeds", if ok { "an-open-adds-a-handle-iff-it-succeeds".to_string() } else { format!("open-answered-{}-handles-{h0}-to-{h1}", opened.replace([' ', ':'], "-")) }));
        }
        if opened == "ok" {
            g.lines.push((format!("act 1 close {nsh}"), match handle.close(nsid).await { Ok(b) => format!("ok {}", b as u8), Err(e) => err_kind(&e) }));
        }
    }
    // leave the document as the clients left it, but for one more handle that is released here
    let _ = handle.unsubscribe(nsid, tx).await;
    g.lines.push((format!("act 1 unsub {nsh}"), "ok".into()));
    drop(rx);
    g.lines.push((format!("act 1 close {nsh}"), match handle.close(nsid).await { Ok(b) => format!("ok {}", b as u8), Err(e) => err_kind(&e) }));
    Ok(g)
}
