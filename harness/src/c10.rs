//! C10 — a sync session ends cleanly whatever the peer sends and whatever fails locally.
//!
//! The real `run_alice` / `BobState::run` (hook H3) over `tokio::io::duplex` against a scripted
//! peer: frame sequences over {Init, Init(other document), Sync(valid), Sync(forged entry), Abort,
//! undecodable frame, frame with a short identifier}, a clean close or a close inside a frame, the
//! accept decision, and a local failure (sync disabled / replica closed / actor shut down) injected
//! before a chosen message. `catch_unwind` and a watchdog guard every run.

use std::time::Duration;

use iroh_docs::{
    actor::{OpenOpts, SyncHandle},
    net::{
        verif_codec::{decode_chunks, encode_frame, run_alice, BobState, Decoded, Frame},
        AbortReason, AcceptOutcome,
    },
    sync::{ContentStatus, RecordIdentifier},
};
use serde::{Deserialize, Serialize};
use tokio::io::{AsyncReadExt, AsyncWriteExt};

use crate::{c02::gen_key, common::*, syncmsg::*, world::*};

#[derive(Clone, Debug, Serialize, Deserialize)]
pub enum ItemSpec {
    /// Init for our document with the peer replica's real initial message
    Init,
    /// Init naming a document that is not open here
    InitOther,
    /// Init for our document whose message is not the honest whole-range fingerprint but an item part
    /// carrying `n` fresh valid entries
    InitItems { n: usize },
    /// Sync with an item part carrying `n` fresh valid entries (`have_local` as given)
    SyncItems { n: usize, have_local: bool },
    /// Sync carrying one forged entry
    SyncForged,
    /// Sync with a fingerprint part over the full range and a bogus fingerprint (forces a reply)
    SyncFingerprint,
    Abort { reason: u8 },
    /// a well-framed payload that does not decode
    Garbage,
    /// a frame whose message holds a 3-byte record identifier (F8)
    ShortId,
    /// a Sync frame whose fingerprint part has record identifiers of `n` and `n + 1` bytes
    /// (shorter than the 64 bytes of namespace and author: must not decode)
    IdLen { n: u8 },
}

#[derive(Clone, Debug, Serialize, Deserialize)]
pub enum Op {
    /// entries of the local replica
    Put { a: usize, key: Vec<u8>, c: Option<usize>, ts: u64 },
    /// entries of the scripted peer's replica (source of its initial message)
    PeerPut { a: usize, key: Vec<u8>, c: Option<usize>, ts: u64 },
    /// run the accepting side against the script
    Bob { items: Vec<ItemSpec>, truncated: bool, reject: Option<u8>, fail: Option<(usize, u8)> },
    /// run the initiating side against the script
    Alice { items: Vec<ItemSpec>, truncated: bool, fail: Option<(usize, u8)> },
}

pub struct C10 {
    pub keys: Keys,
}

impl C10 {
    pub fn new() -> Self {
        C10 { keys: Keys::new(2, 3) }
    }
    fn gen_item(&self, rng: &mut Rng, first: bool) -> ItemSpec {
        match rng.below(if first { 14 } else { 12 }) {
            0..=3 => ItemSpec::SyncItems { n: rng.range(0, 3), have_local: rng.chance(1, 2) },
            4..=5 => ItemSpec::SyncFingerprint,
            6 => ItemSpec::SyncForged,
            7 => ItemSpec::Abort { reason: rng.below(3) as u8 },
            8 => ItemSpec::Garbage,
            9 => if rng.chance(1, 3) { ItemSpec::ShortId } else { ItemSpec::IdLen { n: *rng.pick(&[0u8, 31, 32, 33, 40, 62]) } },
            10 => ItemSpec::InitOther,
            _ => ItemSpec::Init,
        }
    }
}

fn reason(r: u8) -> AbortReason {
    match r % 3 {
        0 => AbortReason::NotFound,
        1 => AbortReason::AlreadySyncing,
        _ => AbortReason::InternalServerError,
    }
}
fn reason_num(r: AbortReason) -> u8 {
    match r {
        AbortReason::NotFound => 0,
        AbortReason::AlreadySyncing => 1,
        AbortReason::InternalServerError => 2,
        #[allow(unreachable_patterns)]
        _ => 9,
    }
}

impl Property for C10 {
    type Op = Op;
    fn id(&self) -> &'static str {
        "C10"
    }
    fn parallel(&self) -> bool {
        false
    }
    fn rule(&self) -> String {
        "the accepting side (BobState::run + into_outcome) and the initiating side (run_alice) over in-memory duplex streams against scripts of 0-4 frames drawn from {Init, Init(other document), Sync(items), Sync(fingerprint), Sync(forged entry), Abort, undecodable frame, short-identifier frame}, ended by a clean close or a close inside a frame; accept or reject; optionally a local failure (sync disabled, replica closed, actor shut down) injected before a chosen message; non-trivial = the script has at least 2 frames or a failure is injected; distinct = distinct operation lists".into()
    }
    fn corpus(&self) -> Vec<(String, Vec<Op>)> {
        vec![
            // F7: accept allows, the first store call fails
            ("f7-local-failure-on-first-call".into(), vec![
                Op::Put { a: 0, key: b"a".to_vec(), c: Some(0), ts: 5 },
                Op::Bob { items: vec![ItemSpec::Init], truncated: false, reject: None, fail: Some((0, 0)) }]),
            ("f7-local-failure-later".into(), vec![
                Op::PeerPut { a: 0, key: b"a".to_vec(), c: Some(0), ts: 5 }, Op::PeerPut { a: 1, key: b"b".to_vec(), c: Some(0), ts: 5 },
                Op::Bob { items: vec![ItemSpec::Init, ItemSpec::SyncItems { n: 2, have_local: false }], truncated: false, reject: None, fail: Some((1, 1)) }]),
            ("f8-short-identifier".into(), vec![
                Op::Bob { items: vec![ItemSpec::ShortId], truncated: false, reject: None, fail: None },
                Op::Bob { items: vec![ItemSpec::Init, ItemSpec::ShortId], truncated: false, reject: None, fail: None },
                Op::Bob { items: vec![ItemSpec::Init, ItemSpec::IdLen { n: 40 }], truncated: false, reject: None, fail: None },
                Op::Bob { items: vec![ItemSpec::Init, ItemSpec::IdLen { n: 32 }], truncated: false, reject: None, fail: None },
                Op::Alice { items: vec![ItemSpec::IdLen { n: 63 }], truncated: false, fail: None }]),
            ("declined-changes-nothing".into(), vec![
                Op::Put { a: 0, key: b"a".to_vec(), c: Some(0), ts: 5 }, Op::PeerPut { a: 1, key: b"b".to_vec(), c: Some(0), ts: 5 },
                Op::Bob { items: vec![ItemSpec::Init, ItemSpec::SyncItems { n: 2, have_local: true }], truncated: false, reject: Some(1), fail: None }]),
            ("unexpected-frames".into(), vec![
                Op::Bob { items: vec![ItemSpec::SyncItems { n: 1, have_local: true }], truncated: false, reject: None, fail: None },
                Op::Bob { items: vec![ItemSpec::Init, ItemSpec::Init], truncated: false, reject: None, fail: None },
                Op::Bob { items: vec![ItemSpec::InitItems { n: 2 }], truncated: false, reject: Some(1), fail: None },
                Op::Bob { items: vec![ItemSpec::InitItems { n: 1 }, ItemSpec::SyncItems { n: 1, have_local: true }], truncated: false, reject: None, fail: None },
                Op::Bob { items: vec![ItemSpec::Abort { reason: 1 }], truncated: false, reject: None, fail: None },
                Op::Bob { items: vec![], truncated: false, reject: None, fail: None },
                Op::Bob { items: vec![], truncated: true, reject: None, fail: None },
                Op::Bob { items: vec![ItemSpec::Init], truncated: true, reject: None, fail: None },
                Op::Bob { items: vec![ItemSpec::Init, ItemSpec::SyncFingerprint], truncated: true, reject: None, fail: None },
                Op::Alice { items: vec![], truncated: true, fail: None },
                Op::Alice { items: vec![ItemSpec::SyncFingerprint, ItemSpec::SyncFingerprint], truncated: true, fail: None },
                Op::Alice { items: vec![ItemSpec::Init], truncated: false, fail: None },
                Op::Alice { items: vec![ItemSpec::Abort { reason: 1 }], truncated: false, fail: None },
                Op::Alice { items: vec![], truncated: false, fail: None },
                Op::Alice { items: vec![ItemSpec::SyncFingerprint], truncated: true, fail: None }]),
        ]
    }
    fn generate(&self, rng: &mut Rng, _i: usize, thorough: bool) -> Vec<Op> {
        let mut ops = vec![];
        for _ in 0..rng.range(0, 5) {
            ops.push(Op::Put { a: rng.below(3), key: gen_key(rng), c: if rng.chance(1, 5) { None } else { Some(rng.below(3)) }, ts: *rng.pick(&crate::c02::TIMES) });
        }
        for _ in 0..rng.range(0, 5) {
            ops.push(Op::PeerPut { a: rng.below(3), key: gen_key(rng), c: if rng.chance(1, 5) { None } else { Some(rng.below(3)) }, ts: *rng.pick(&crate::c02::TIMES) });
        }
        for _ in 0..rng.range(1, if thorough { 4 } else { 2 }) {
            let n = rng.range(0, 4);
            let bob = rng.chance(3, 5);
            let mut items = vec![];
            for i in 0..n {
                if bob && i == 0 && rng.chance(4, 5) {
                    items.push(if rng.chance(1, 4) { ItemSpec::InitItems { n: rng.range(1, 3) } } else { ItemSpec::Init });
                } else {
                    items.push(self.gen_item(rng, i == 0));
                }
            }
            let fail = if rng.chance(1, 3) { Some((rng.below(n + 1), rng.below(3) as u8)) } else { None };
            let truncated = rng.chance(1, 5);
            if bob {
                ops.push(Op::Bob { items, truncated, reject: if rng.chance(1, 6) { Some(rng.below(3) as u8) } else { None }, fail });
            } else {
                ops.push(Op::Alice { items, truncated, fail });
            }
        }
        ops
    }
    fn execute(&self, ops: &[Op]) -> anyhow::Result<Vec<Line>> {
        let rt = tokio::runtime::Builder::new_current_thread().enable_time().build()?;
        let ns = &self.keys.namespaces[0];
        let other_ns = &self.keys.namespaces[1];
        let nsid = ns.id();
        let nshex = hex(nsid.as_bytes());
        iroh_docs::verif::set_clock_micros(Some(NOW));
        set_clock(NOW);
        let tok: EntryTok = &|e| with_fp(stored_tok(e), e);
        // the local store is re-created for every session from the same entries (sessions change it)
        let mut local: Vec<iroh_docs::SignedEntry> = vec![];
        let mut peer_store = RealStore::new(false)?;
        peer_store.store.new_replica(ns.clone())?;
        peer_store.store.close_replica(nsid);
        let mut lines = vec![];
        let mut session_no = 0usize;
        let mut fresh = 0u32;
        for op in ops {
            match op {
                Op::Put { a, key, c, ts } => local.push(make_entry(ns, &self.keys.authors[*a], key, *c, *ts)),
                Op::PeerPut { a, key, c, ts } => {
                    let e = make_entry(ns, &self.keys.authors[*a], key, *c, *ts);
                    let mut r = peer_store.store.open_replica(&nsid)?;
                    let _ = rt.block_on(r.insert_remote_entry(e, PEER, ContentStatus::Missing));
                    drop(r);
                    peer_store.store.close_replica(nsid);
                }
                Op::Bob { .. } | Op::Alice { .. } => {
                    session_no += 1;
                    let sid = session_no;
                    let (items, truncated, reject, fail, is_bob) = match op {
                        Op::Bob { items, truncated, reject, fail } => (items, *truncated, *reject, *fail, true),
                        Op::Alice { items, truncated, fail } => (items, *truncated, None, *fail, false),
                        _ => unreachable!(),
                    };
                    // fresh local store + model store
                    let mut store = iroh_docs::store::Store::memory();
                    store.new_replica(ns.clone())?;
                    lines.push(Line::model(format!("tnew {sid}"), "ok"));
                    lines.push(Line::model(format!("tns {sid} {nshex} 1 {}", hex(&ns.to_bytes())), "inserted"));
                    {
                        let mut r = store.open_replica(&nsid)?;
                        for e in &local {
                            let res = rt.block_on(r.insert_remote_entry(e.clone(), PEER, ContentStatus::Missing));
                            lines.push(Line::model(format!("tput {sid} {}", honest_fp_tok(e)), insert_result(res)));
                        }
                    }
                    store.close_replica(nsid);
                    // build the frames of the script
                    let mut frames_bytes: Vec<Vec<u8>> = vec![];
                    let mut item_toks: Vec<String> = vec![];
                    // number of entries each scripted frame carries (for the mirror specification)
                    let mut frame_values: Vec<usize> = vec![];
                    let anchor = RecordIdentifier::new(nsid, self.keys.authors[0].id(), b"");
                    for it in items {
                        let (bytes, itok) = match it {
                            ItemSpec::Init | ItemSpec::InitOther => {
                                let m0 = {
                                    let mut r = peer_store.store.open_replica(&nsid)?;
                                    let m = r.sync_initial_message()?;
                                    drop(r);
                                    peer_store.store.close_replica(nsid);
                                    m
                                };
                                let namespace = if matches!(it, ItemSpec::Init) { nsid } else { other_ns.id() };
                                let mm = MMsg::from_real(&m0);
                                (encode_frame(Frame::Init { namespace, message: m0 })?, format!("init@{}@{}", hex(namespace.as_bytes()), msg_tok(&mm, tok)))
                            }
                            ItemSpec::InitItems { n } => {
                                let mut values = vec![];
                                for _ in 0..*n {
                                    fresh += 1;
                                    let k = format!("fresh-{fresh}");
                                    values.push((make_entry(ns, &self.keys.authors[fresh as usize % 3], k.as_bytes(), Some(fresh as usize % 3), 7), ContentStatus::Complete));
                                }
                                let mm = MMsg { parts: vec![MPart::RangeItem(MItem { range: MRange { x: anchor.clone(), y: anchor.clone() }, values, have_local: false })] };
                                (encode_frame(Frame::Init { namespace: nsid, message: mm.to_real()? })?, format!("init@{}@{}", hex(nsid.as_bytes()), msg_tok(&mm, tok)))
                            }
                            ItemSpec::SyncItems { n, have_local } => {
                                let mut values = vec![];
                                for _ in 0..*n {
                                    fresh += 1;
                                    let k = format!("fresh-{fresh}");
                                    values.push((make_entry(ns, &self.keys.authors[fresh as usize % 3], k.as_bytes(), Some(fresh as usize % 3), 7), ContentStatus::Complete));
                                }
                                let mm = MMsg { parts: vec![MPart::RangeItem(MItem { range: MRange { x: anchor.clone(), y: anchor.clone() }, values, have_local: *have_local })] };
                                (encode_frame(Frame::Sync(mm.to_real()?))?, format!("sync@{}", msg_tok(&mm, tok)))
                            }
                            ItemSpec::SyncForged => {
                                fresh += 1;
                                let k = format!("forged-{fresh}");
                                let good = make_entry(ns, &self.keys.authors[0], k.as_bytes(), Some(0), 7);
                                let other = make_entry(ns, &self.keys.authors[0], b"some-other-key", Some(0), 7);
                                let a = postcard::to_stdvec(&other).unwrap();
                                let b = postcard::to_stdvec(&good).unwrap();
                                let mut v = a[..128].to_vec();
                                v.extend_from_slice(&b[128..]);
                                let forged: iroh_docs::SignedEntry = postcard::from_bytes(&v).unwrap();
                                let ftok = with_fp(entry_tok(&forged, sig_tag(&forged), false, false), &forged);
                                let mm = MMsg { parts: vec![MPart::RangeItem(MItem { range: MRange { x: anchor.clone(), y: anchor.clone() }, values: vec![(forged, ContentStatus::Complete)], have_local: true })] };
                                let t = format!("sync@I;{};{};1;{}~0", hex(anchor.as_ref()), hex(anchor.as_ref()), ftok);
                                (encode_frame(Frame::Sync(mm.to_real()?))?, t)
                            }
                            ItemSpec::SyncFingerprint => {
                                let mm = MMsg { parts: vec![MPart::RangeFingerprint(MFp { range: MRange { x: anchor.clone(), y: anchor.clone() }, fingerprint: [0x5A; 32] })] };
                                (encode_frame(Frame::Sync(mm.to_real()?))?, format!("sync@{}", msg_tok(&mm, tok)))
                            }
                            ItemSpec::Abort { reason: r } => (encode_frame(Frame::Abort { reason: reason(*r) })?, format!("abort@{}", r % 3)),
                            ItemSpec::Garbage => (vec![0, 0, 0, 3, 9, 9, 9], "garbage".to_string()),
                            ItemSpec::IdLen { .. } => (vec![], String::new()),
                            ItemSpec::ShortId => {
                                // Sync( [RangeFingerprint { x: 3 bytes, y: 2 bytes, fp }] )
                                let mut p = vec![1u8, 1, 0, 3, 1, 2, 3, 2, 4, 5];
                                p.extend([9u8; 32]);
                                let mut f = (p.len() as u32).to_be_bytes().to_vec();
                                f.extend(p);
                                (f, "garbage".to_string())
                            }
                        };
                        let (bytes, itok) = if let ItemSpec::IdLen { n } = it {
                            let mut p = vec![1u8, 1, 0, *n];
                            p.extend((0..*n).map(|i| 0x10 + i));
                            p.push(*n + 1);
                            p.extend((0..*n + 1).map(|i| 0x60 + i));
                            p.extend([9u8; 32]);
                            let mut f = (p.len() as u32).to_be_bytes().to_vec();
                            f.extend(p);
                            (f, "garbage".to_string())
                        } else {
                            (bytes, itok)
                        };
                        frame_values.push(match it {
                            ItemSpec::SyncItems { n, .. } | ItemSpec::InitItems { n } => *n,
                            ItemSpec::SyncForged => 1,
                            _ => 0,
                        });
                        frames_bytes.push(bytes);
                        item_toks.push(itok);
                    }
                    // run
                    let handle = SyncHandle::spawn(store, None, "c10".into());
                    let peer_pk = iroh::SecretKey::from_bytes(&[3u8; 32]).public();
                    let outcome: anyhow::Result<(String, Option<iroh_docs::store::Store>, Option<String>)> = rt.block_on(async {
                        handle.open(nsid, OpenOpts::default().sync()).await?;
                        let (ours, theirs) = tokio::io::duplex(1 << 22);
                        let (mut our_r, mut our_w) = tokio::io::split(ours);
                        let (mut their_r, mut their_w) = tokio::io::split(theirs);
                        let h2 = handle.clone();
                        let reject_reason = reject;
                        let task = tokio::task::spawn(async move {
                            if is_bob {
                                let mut state = BobState::new(peer_pk);
                                let res = state
                                    .run(&mut our_w, &mut our_r, h2, |_ns, _peer| {
                                        let out = match reject_reason {
                                            Some(r) => AcceptOutcome::Reject(reason(r)),
                                            None => AcceptOutcome::Allow,
                                        };
                                        std::future::ready(out)
                                    })
                                    .await;
                                let res_s = match &res {
                                    Ok(n) => format!("ok {}", hex(n.as_bytes())),
                                    Err(iroh_docs::net::AcceptError::Abort { namespace, reason, .. }) => format!("aborted {} {}", hex(namespace.as_bytes()), reason_num(*reason)),
                                    Err(_) => "failed".to_string(),
                                };
                                // the document `handle_connection` would name if closing the streams failed now
                                let res_s = format!("{res_s},names={}", state.namespace().map(|n| hex(n.as_bytes())).unwrap_or("none".into()));
                                let out = std::panic::catch_unwind(std::panic::AssertUnwindSafe(|| state.into_outcome()));
                                let out_s = match out {
                                    Ok(o) => format!("{}/{}", o.num_recv, o.num_sent),
                                    Err(_) => "unavailable".to_string(),
                                };
                                drop(our_w);
                                (res_s, Some(out_s))
                            } else {
                                let res = run_alice(&mut our_w, &mut our_r, &h2, nsid, peer_pk).await;
                                let res_s = match &res {
                                    Ok(o) => format!("ok {}/{}", o.num_recv, o.num_sent),
                                    Err(iroh_docs::net::ConnectError::RemoteAbort(r)) => format!("remote-abort {}", reason_num(*r)),
                                    Err(_) => "failed".to_string(),
                                };
                                drop(our_w);
                                (res_s, None)
                            }
                        });
                        // the scripted peer, in lockstep: after each frame wait until the session
                        // answered with a frame or finished
                        let mut received: Vec<u8> = vec![];
                        let mut frames_seen = 0usize;
                        let mut shut = None;
                        let wait_progress = |received: &Vec<u8>| {
                            let (out, _) = decode_chunks(&[received.clone()]);
                            out.iter().filter(|d| matches!(d, Decoded::Frame(_))).count()
                        };
                        let mut buf = vec![0u8; 1 << 16];
                        // the initiating side speaks first
                        if !is_bob {
                            if let Some((0, kind)) = fail {
                                inject(&handle, nsid, kind, &mut shut).await;
                            }
                        }
                        let deadline = tokio::time::Instant::now() + Duration::from_secs(10);
                        macro_rules! pump {
                            ($want:expr) => {
                                loop {
                                    if wait_progress(&received) >= $want || task.is_finished() || tokio::time::Instant::now() > deadline {
                                        break;
                                    }
                                    match tokio::time::timeout(Duration::from_millis(20), their_r.read(&mut buf)).await {
                                        Ok(Ok(0)) => break,
                                        Ok(Ok(n)) => received.extend_from_slice(&buf[..n]),
                                        Ok(Err(_)) => break,
                                        Err(_) => {}
                                    }
                                }
                            };
                        }
                        if !is_bob {
                            pump!(1);
                            frames_seen = wait_progress(&received);
                        }
                        let mut script_sent_values = 0usize;
                        let tail_frame: Vec<u8> = {
                            let e = make_entry(ns, &self.keys.authors[0], b"cut-off", Some(1), 7);
                            let mm = MMsg { parts: vec![MPart::RangeItem(MItem { range: MRange { x: anchor.clone(), y: anchor.clone() }, values: vec![(e, ContentStatus::Complete)], have_local: true })] };
                            encode_frame(Frame::Sync(mm.to_real()?))?
                        };
                        for (i, fb) in frames_bytes.iter().enumerate() {
                            if let Some((k, kind)) = fail {
                                if k == i && (is_bob || k > 0) {
                                    inject(&handle, nsid, kind, &mut shut).await;
                                }
                            }
                            if their_w.write_all(fb).await.is_err() {
                                break;
                            }
                            script_sent_values += frame_values[i];
                            let _ = their_w.flush().await;
                            pump!(frames_seen + 1);
                            frames_seen = wait_progress(&received);
                            if task.is_finished() {
                                break;
                            }
                        }
                        if let Some((k, kind)) = fail {
                            if k >= frames_bytes.len() && (is_bob || k > 0) && shut.is_none() {
                                inject(&handle, nsid, kind, &mut shut).await;
                            }
                        }
                        if truncated {
                            // the stream ends inside a frame: inside the 4-byte length prefix (1, 2
                            // or 3 bytes) or inside the body, chosen by the shape of the case
                            let k = [1usize, 2, 3, 5, 7][(items.len() + 2 * reject.is_some() as usize + is_bob as usize + fail.map(|f| f.0).unwrap_or(0)) % 5];
                            if (items.len() + is_bob as usize) % 2 == 0 {
                                let _ = their_w.write_all(&[0u8, 0, 0, 9, 1, 2, 3][..k]).await;
                            } else {
                                // the peer was cut off while sending a frame that carries an entry: like the real
                                // drivers it has counted the entry as sent, so a success reported by this side
                                // would not mirror
                                if their_w.write_all(&tail_frame[..k.min(tail_frame.len())]).await.is_ok() {
                                    script_sent_values += 1;
                                }
                            }
                        }
                        let _ = their_w.shutdown().await;
                        drop(their_w);
                        // never waits forever
                        let joined = tokio::time::timeout(Duration::from_secs(10), task).await;
                        let (res_s, out_s) = match joined {
                            Err(_) => ("hung".to_string(), None),
                            Ok(Err(e)) => (if e.is_panic() { "panicked".to_string() } else { "cancelled".to_string() }, None),
                            Ok(Ok(x)) => x,
                        };
                        // everything the session wrote
                        loop {
                            match tokio::time::timeout(Duration::from_millis(200), their_r.read(&mut buf)).await {
                                Ok(Ok(0)) | Ok(Err(_)) | Err(_) => break,
                                Ok(Ok(n)) => received.extend_from_slice(&buf[..n]),
                            }
                        }
                        let (dec, _) = decode_chunks(&[received.clone()]);
                        let mut written = vec![];
                        let mut script_recv_values = 0usize;
                        for d in dec {
                            if let Decoded::Frame(f) = d {
                                script_recv_values += match &f {
                                    Frame::Init { message, .. } => MMsg::from_real(message).value_count(),
                                    Frame::Sync(m) => MMsg::from_real(m).value_count(),
                                    Frame::Abort { .. } => 0,
                                };
                                written.push(match f {
                                    Frame::Init { namespace, message } => format!("init@{}@{}", hex(namespace.as_bytes()), msg_tok(&MMsg::from_real(&message), tok)),
                                    Frame::Sync(m) => format!("sync@{}", msg_tok(&MMsg::from_real(&m), tok)),
                                    Frame::Abort { reason } => format!("abort@{}", reason_num(reason)),
                                });
                            }
                        }
                        let mut line = format!("result={} written={}:{}", res_s, written.len(), if written.is_empty() { "-".to_string() } else { written.join("#") });
                        // specification: on success the two sides' counts mirror each other
                        let real_counts = if is_bob {
                            if res_s.starts_with("ok ") { out_s.clone() } else { None }
                        } else {
                            res_s.strip_prefix("ok ").map(|s| s.to_string())
                        };
                        let mirror = real_counts.map(|c| {
                            let want = format!("{}/{}", script_sent_values, script_recv_values);
                            if c == want { "mirror=1".to_string() } else { format!("mirror=0:reported-recv/sent={c},peer-sent/recv={want}") }
                        });
                        if let Some(o) = out_s {
                            line.push_str(&format!(" outcome={o}"));
                        }
                        Ok((line, shut, mirror))
                    });
                    let (line, shut, mirror) = outcome?;
                    let fail_from = fail.map(|(k, _)| k.to_string()).unwrap_or("-".into());
                    let e = if truncated { "trunc" } else { "eof" };
                    let cmd = if is_bob {
                        format!("bobrun {sid} {nshex} {NOW} {} {fail_from} {e} {}", reject.map(|r| format!("reject:{}", r % 3)).unwrap_or("allow".into()), item_toks.join(" "))
                    } else {
                        format!("alicerun {sid} {nshex} {NOW} {fail_from} {e} {}", item_toks.join(" "))
                    };
                    lines.push(Line::model(cmd.trim_end().to_string(), line.clone()));
                    // specification: the session ended (no hang, no panic) and the acceptor can report
                    let clean = !line.contains("result=hung") && !line.contains("result=panicked") && !line.contains("outcome=unavailable");
                    lines.push(Line::oracle("sconst ended-cleanly", if clean { "ended-cleanly".to_string() } else { format!("not-clean:{}", line.split(' ').next().unwrap_or("")) }));
                    if let Some(m) = mirror {
                        lines.push(Line::oracle("sconst mirror=1", m));
                    }
                    if is_bob && line.starts_with("result=aborted") {
                        // specification (where C10 meets C11): a declined request is reported as the decline; should
                        // closing the streams fail afterwards, the error names no document (the live actor would take
                        // a named error for the end of the session that holds the slot)
                        lines.push(Line::oracle("sconst declined-request-names-no-document", if line.contains(",names=none") { "declined-request-names-no-document" } else { "declined-request-names-the-document" }));
                    }
                    // the store afterwards (declined / failed sessions must not have changed it beyond the model)
                    let mut store = match shut {
                        Some(s) => s,
                        None => rt.block_on(handle.shutdown())?,
                    };
                    let d = crate::c08::dump_fp(&mut store, nsid)?;
                    lines.push(Line::model(format!("tquery {sid} {nshex} flat-ak * any - 0 1 0"), d.clone()));
                    if reject.is_some() && items.first().map(|i| matches!(i, ItemSpec::Init | ItemSpec::InitOther | ItemSpec::InitItems { .. })).unwrap_or(false) {
                        // specification: a declined request changes nothing
                        let before = entries_line(&{
                            let mut v: Vec<_> = vec![];
                            let mut tmp = iroh_docs::store::Store::memory();
                            tmp.new_replica(ns.clone())?;
                            {
                                let mut r = tmp.open_replica(&nsid)?;
                                for e in &local {
                                    let _ = rt.block_on(r.insert_remote_entry(e.clone(), PEER, ContentStatus::Missing));
                                }
                            }
                            tmp.close_replica(nsid);
                            for e in tmp.get_many(nsid, iroh_docs::store::Query::all().include_empty())? {
                                let e = e?;
                                v.push(with_fp(stored_tok(&e), &e));
                            }
                            v
                        });
                        lines.push(Line::oracle("sconst declined-is-noop", if before == d { "declined-is-noop" } else { "declined-session-changed-the-store" }));
                    }
                }
            }
        }
        iroh_docs::verif::set_clock_micros(None);
        Ok(lines)
    }
    fn features(&self, ops: &[Op], lines: &[Line]) -> Vec<String> {
        let mut f = vec![];
        for o in ops {
            match o {
                Op::Bob { items, truncated, reject, fail } => {
                    f.push("role:acceptor".into());
                    f.push(format!("frames:{}", items.len()));
                    if *truncated { f.push("end:truncated".into()); }
                    if reject.is_some() { f.push("accept:reject".into()); }
                    if let Some((_, k)) = fail { f.push(format!("fail:{}", ["sync-off", "closed", "shutdown"][*k as usize % 3])); }
                    for i in items { f.push(format!("item:{}", format!("{i:?}").split([' ', '{']).next().unwrap_or(""))); }
                }
                Op::Alice { items, truncated, fail } => {
                    f.push("role:initiator".into());
                    f.push(format!("frames:{}", items.len()));
                    if *truncated { f.push("end:truncated".into()); }
                    if let Some((_, k)) = fail { f.push(format!("fail:{}", ["sync-off", "closed", "shutdown"][*k as usize % 3])); }
                    for i in items { f.push(format!("item:{}", format!("{i:?}").split([' ', '{']).next().unwrap_or(""))); }
                }
                _ => {}
            }
        }
        for l in lines {
            if l.op.starts_with("bobrun") || l.op.starts_with("alicerun") {
                f.push(format!("result:{}", l.imp.split(' ').next().unwrap_or("").replace("result=", "")));
            }
        }
        f.sort();
        f.dedup();
        f
    }
    fn nontrivial(&self, ops: &[Op], _lines: &[Line]) -> bool {
        ops.iter().any(|o| match o {
            Op::Bob { items, fail, .. } | Op::Alice { items, fail, .. } => items.len() >= 2 || fail.is_some(),
            _ => false,
        })
    }
}

async fn inject(handle: &SyncHandle, ns: iroh_docs::NamespaceId, kind: u8, shut: &mut Option<iroh_docs::store::Store>) {
    match kind % 3 {
        0 => {
            let _ = handle.set_sync(ns, false).await;
        }
        1 => {
            let _ = handle.close(ns).await;
        }
        _ => {
            if shut.is_none() {
                if let Ok(s) = handle.shutdown().await {
                    *shut = Some(s);
                }
            }
        }
    }
}
