//! C04 — a swarm of replicas is eventually consistent despite loss, duplication and reordering.
//!
//! 2..5 real replicas (memory / file stores), each with its own clock (hook H1): local inserts
//! and prefix deletions, gossip deliveries of anything ever written (`insert_remote_entry`, exactly
//! what `engine/gossip.rs::receive_loop` does with an `Op::Put`) in any order with duplicates and
//! losses, reconciliation sessions through `sync_initial_message` / `sync_process_message` cut
//! after any message, restarts from disk; then a closing sweep of complete sessions up and down a
//! random spanning tree. Every step is compared with the table-level model (message by message)
//! and with the swarm model of the theorems; at the end every replica is compared with the
//! specification `join W` (W = the accepted local writes) and checked for foreign entries.

use iroh_docs::sync::{ContentStatus, SyncOutcome};
use serde::{Deserialize, Serialize};

use crate::{c01::Side, c02::gen_key, common::*, syncmsg::*, world::*};

const MINUTE: u64 = 60_000_000;
/// clock settings (micros): around NOW, with skews below and above the ten-minute future bound
pub const CLOCKS: [u64; 8] = [
    NOW,
    NOW + 1,
    NOW + 2,
    NOW + 5 * MINUTE,
    NOW - 5 * MINUTE,
    NOW + 9 * MINUTE,
    NOW + 15 * MINUTE,
    NOW - 20 * MINUTE,
];
pub const CLOSING_NOW: u64 = NOW + 30 * MINUTE;

#[derive(Clone, Debug, Serialize, Deserialize)]
pub enum Op {
    Cfg { n: usize, file: Vec<bool>, max_set: usize, split: usize, tree_seed: u64 },
    Clock { i: usize, t: usize },
    Write { i: usize, a: usize, key: Vec<u8>, c: usize },
    Delete { i: usize, a: usize, key: Vec<u8> },
    /// the `w`-th accepted local write so far (mod their number) reaches replica `i`
    Deliver { i: usize, w: usize },
    /// `i` initiates; `cut = Some(k)`: the connection dies after `k` messages were processed
    Session { i: usize, j: usize, cut: Option<usize> },
    Restart { i: usize },
}

pub struct C04 {
    pub keys: Keys,
}

impl C04 {
    pub fn new() -> Self {
        C04 { keys: Keys::new(1, 3) }
    }
}

fn two_mut<T>(v: &mut [T], i: usize, j: usize) -> (&mut T, &mut T) {
    assert!(i != j);
    if i < j {
        let (a, b) = v.split_at_mut(j);
        (&mut a[i], &mut b[0])
    } else {
        let (a, b) = v.split_at_mut(i);
        (&mut b[0], &mut a[j])
    }
}

fn peer_id(i: usize) -> [u8; 32] {
    [0xA0 + i as u8; 32]
}

fn real_dump(store: &mut iroh_docs::store::Store, nsid: iroh_docs::NamespaceId) -> anyhow::Result<(String, String)> {
    let mut toks = Vec::new();
    for e in store.get_many(nsid, iroh_docs::store::Query::all().include_empty())? {
        let e = e?;
        toks.push(with_fp(stored_tok(&e), &e));
    }
    let joined = if toks.is_empty() { "-".to_string() } else { toks.join(";") };
    Ok((entries_line(&toks), joined))
}

/// parent of node k (k >= 1) in the spanning tree of the closing sweep
fn parent(seed: u64, k: usize) -> usize {
    let mut r = Rng::new(seed ^ (k as u64).wrapping_mul(0x9E37_79B9_7F4A_7C15));
    r.below(k)
}

struct Swarm<'k> {
    keys: &'k Keys,
    rt: tokio::runtime::Runtime,
    stores: Vec<RealStore>,
    clocks: Vec<u64>,
    nshex: String,
    nsid: iroh_docs::NamespaceId,
    cfg: (usize, usize),
    /// accepted local writes, in order
    written: Vec<iroh_docs::SignedEntry>,
    lines: Vec<Line>,
}

impl<'k> Swarm<'k> {
    fn dump_lines(&mut self, i: usize) -> anyhow::Result<()> {
        let (d, _) = real_dump(&mut self.stores[i].store, self.nsid)?;
        self.lines.push(Line::model(format!("wdump 1 {i}"), d.clone()));
        self.lines.push(Line::model(format!("tquery {} {} flat-ak * any - 0 1 0", 10 + i, self.nshex), d));
        Ok(())
    }

    fn no_foreign(&mut self, i: usize) -> anyhow::Result<()> {
        let (_, toks) = real_dump(&mut self.stores[i].store, self.nsid)?;
        self.lines.push(Line::oracle(format!("wsubset 1 {toks}"), "ok"));
        Ok(())
    }

    /// one session between replicas `i` (initiator) and `j`, cut after `cut` processed messages;
    /// `closing`: part of the closing round (a complete session between valid replicas)
    fn session(&mut self, i: usize, j: usize, cut: Option<usize>, closing: bool) -> anyhow::Result<()> {
        let tok: EntryTok = &|e| with_fp(stored_tok(e), e);
        let nsid = self.nsid;
        let nshex = self.nshex.clone();
        let cfg = self.cfg;
        let (ci, cj) = (self.clocks[i], self.clocks[j]);
        let total: usize = self.written.len();
        let budget = std::env::var("VERIF_C04_BUDGET").ok().and_then(|s| s.parse().ok()).unwrap_or(6 * total + 12);
        let mut lines = std::mem::take(&mut self.lines);
        let mut carried: Vec<(usize, iroh_docs::SignedEntry)> = vec![];
        let mut completed = false;
        let mut exceeded = false;
        {
            let (si, sj) = two_mut(&mut self.stores, i, j);
            let mut init = Side::open(10 + i, &mut si.store, nsid, peer_id(i))?;
            let mut resp = Side::open(10 + j, &mut sj.store, nsid, peer_id(j))?;
            init.outcome = SyncOutcome::default();
            resp.outcome = SyncOutcome::default();
            lines.push(Line::model(format!("oreset {}", init.sid), "ok"));
            lines.push(Line::model(format!("oreset {}", resp.sid), "ok"));
            set_clock(ci);
            let m0 = init.replica.sync_initial_message()?;
            let mut msg = MMsg::from_real(&m0);
            lines.push(Line::model(format!("tinit {} {}", init.sid, nshex), format!("msg {}", msg_tok(&msg, tok))));
            let mut real = m0;
            let mut processed = 0usize;
            let mut to_resp = true;
            loop {
                if cut == Some(processed) {
                    break;
                }
                let (side, from, now, idx) = if to_resp { (&mut resp, peer_id(i), cj, j) } else { (&mut init, peer_id(j), ci, i) };
                set_clock(now);
                let reply = self.rt.block_on(side.replica.sync_process_message(real, from, &mut side.outcome))?;
                processed += 1;
                let inserted: Vec<_> = drain_remote(&side.rx).into_iter().map(|(e, s, _, _)| (e, s)).collect();
                let reply_m = reply.as_ref().map(MMsg::from_real);
                lines.push(Line::model(
                    format!("tproc {} {} {} {} {} {}", side.sid, nshex, now, cfg.0, cfg.1, msg_tok(&msg, tok)),
                    step_line(reply_m.as_ref(), &inserted, &side.outcome, tok),
                ));
                for (e, _) in inserted {
                    carried.push((idx, e));
                }
                match reply {
                    None => {
                        completed = true;
                        break;
                    }
                    Some(r) => {
                        msg = reply_m.unwrap();
                        if processed > budget || msg.parts.len() > 400 {
                            exceeded = true;
                            break;
                        }
                        real = r;
                        to_resp = !to_resp;
                    }
                }
            }
            drop(init);
            drop(resp);
            si.store.close_replica(nsid);
            sj.store.close_replica(nsid);
        }
        self.lines = lines;
        if closing {
            self.lines.push(Line::oracle(
                "sconst session-completes",
                if completed { "session-completes".to_string() } else if exceeded { format!("exceeded-{budget}-messages") } else { "cut".into() },
            ));
            self.lines.push(Line::model(format!("wsession 1 {i} {j}"), "ok"));
        } else {
            if exceeded {
                // outside the closing round nothing promises that a session ends (a replica whose
                // clock is behind keeps rejecting the peer's entries): it counts as cut here
                if std::env::var("VERIF_C04_STRICT").is_ok() {
                    self.lines.push(Line::oracle("sconst session-ends", format!("exceeded-{budget}-messages max_set={} split={}", cfg.0, cfg.1)));
                }
                self.lines.push(Line::model("sconst session-did-not-end", "session-did-not-end"));
            }
            // at the level of the swarm model a (cut) session is the delivery of what it carried
            for (idx, e) in carried {
                let now = self.clocks[idx];
                self.lines.push(Line::model(format!("wcarry 1 {idx} {} {now} {}", self.nshex, honest_fp_tok(&e)), "inserted"));
            }
        }
        self.dump_lines(i)?;
        self.dump_lines(j)?;
        self.no_foreign(i)?;
        self.no_foreign(j)?;
        Ok(())
    }
}

impl Property for C04 {
    type Op = Op;
    fn id(&self) -> &'static str {
        "C04"
    }
    fn rule(&self) -> String {
        "histories of 4-40 steps over 2-5 replicas (memory and file stores, per-replica clocks skewed by up to -20/+15 minutes around the ten-minute future bound): local inserts and prefix deletions by 3 authors on keys from {00,01,61,62,FE,FF}^0..3, deliveries of any earlier accepted write (duplicates, reordering, losses; rejected when beyond the receiver's future bound), sessions cut after 0..6 processed messages or complete, restarts of file stores; then a closing sweep of complete sessions up and down a random spanning tree with all clocks past every timestamp; non-trivial = at least two replicas wrote, the replicas' states differed before the closing sweep and at least one cut session or rejected delivery or restart happened; distinct = distinct operation lists".into()
    }
    fn corpus(&self) -> Vec<(String, Vec<Op>)> {
        let cfg = |n: usize| Op::Cfg { n, file: vec![false; n], max_set: 1, split: 2, tree_seed: 7 };
        vec![
            // F1: a deletion marker written by one replica and an older live child written by another
            (
                "f1-marker-then-late-child".into(),
                vec![
                    cfg(3),
                    Op::Clock { i: 0, t: 4 },
                    Op::Write { i: 0, a: 0, key: b"ab".to_vec(), c: 0 },
                    Op::Delete { i: 1, a: 0, key: b"a".to_vec() },
                    Op::Deliver { i: 1, w: 0 },
                    Op::Deliver { i: 2, w: 1 },
                    Op::Deliver { i: 2, w: 0 },
                ],
            ),
            // a write from a clock beyond the future bound is rejected until the closing round
            (
                "future-write-rejected-then-accepted".into(),
                vec![
                    cfg(2),
                    Op::Clock { i: 0, t: 6 },
                    Op::Write { i: 0, a: 1, key: b"k".to_vec(), c: 1 },
                    Op::Deliver { i: 1, w: 0 },
                    Op::Session { i: 1, j: 0, cut: None },
                ],
            ),
            (
                "cut-sessions".into(),
                vec![
                    cfg(3),
                    Op::Write { i: 0, a: 0, key: b"a".to_vec(), c: 0 },
                    Op::Write { i: 0, a: 1, key: b"b".to_vec(), c: 1 },
                    Op::Write { i: 1, a: 0, key: b"c".to_vec(), c: 2 },
                    Op::Write { i: 2, a: 2, key: b"".to_vec(), c: 0 },
                    Op::Session { i: 0, j: 1, cut: Some(1) },
                    Op::Session { i: 1, j: 2, cut: Some(2) },
                    Op::Session { i: 2, j: 0, cut: Some(3) },
                ],
            ),
        ]
    }
    fn generate(&self, rng: &mut Rng, _i: usize, thorough: bool) -> Vec<Op> {
        let n = rng.range(2, 5);
        let default_cfg = rng.chance(1, 2);
        let mut ops = vec![Op::Cfg {
            n,
            file: (0..n).map(|_| rng.chance(1, 2)).collect(),
            max_set: if default_cfg { 1 } else { *rng.pick(&[0usize, 1, 2, 4]) },
            split: if default_cfg { 2 } else { *rng.pick(&[2usize, 3, 4, 5]) },
            tree_seed: rng.next_u64(),
        }];
        let steps = rng.range(4, if thorough { 60 } else { 40 });
        for _ in 0..steps {
            let i = rng.below(n);
            let op = match rng.below(20) {
                0..=1 => Op::Clock { i, t: rng.below(CLOCKS.len()) },
                2..=7 => Op::Write { i, a: rng.below(3), key: gen_key(rng), c: if rng.chance(1, 12) { 100 + rng.below(3) } else { rng.below(3) } },
                8..=9 => Op::Delete { i, a: rng.below(3), key: gen_key(rng) },
                10..=14 => Op::Deliver { i, w: rng.below(64) },
                15..=17 => {
                    let mut j = rng.below(n);
                    if j == i {
                        j = (i + 1) % n;
                    }
                    Op::Session { i, j, cut: if rng.chance(3, 4) { Some(rng.below(7)) } else { None } }
                }
                _ => Op::Restart { i },
            };
            let restarted = if let Op::Restart { i } = &op { Some(*i) } else { None };
            ops.push(op);
            if let Some(i) = restarted {
                // what is only in memory is gone now: the restarted replica writes again (a key of another
                // length, an author it has written for before) and old entries are delivered to it once more
                if rng.chance(2, 3) {
                    ops.push(Op::Write { i, a: rng.below(3), key: gen_key(rng), c: rng.below(3) });
                }
                for _ in 0..rng.range(1, 3) {
                    ops.push(Op::Deliver { i, w: rng.below(64) });
                }
            }
        }
        ops
    }
    fn execute(&self, ops: &[Op]) -> anyhow::Result<Vec<Line>> {
        let (n, file, max_set, split, tree_seed) = match ops.first() {
            Some(Op::Cfg { n, file, max_set, split, tree_seed }) => (*n, file.clone(), *max_set, *split, *tree_seed),
            _ => (2, vec![false, false], 1, 2, 0),
        };
        let n = n.clamp(2, 5);
        let ns = &self.keys.namespaces[0];
        let nsid = ns.id();
        let mut sw = Swarm {
            keys: &self.keys,
            rt: rt(),
            stores: vec![],
            clocks: vec![NOW; n],
            nshex: hex(nsid.as_bytes()),
            nsid,
            cfg: (max_set, split),
            written: vec![],
            lines: vec![Line::model("wnew 1", "ok")],
        };
        set_clock(NOW);
        for i in 0..n {
            let mut s = RealStore::new(file.get(i).copied().unwrap_or(false))?;
            s.store.new_replica(ns.clone())?;
            s.store.close_replica(nsid);
            sw.stores.push(s);
            sw.lines.push(Line::model(format!("tnew {}", 10 + i), "ok"));
            sw.lines.push(Line::model(format!("tns {} {} 1 {}", 10 + i, sw.nshex, hex(&ns.to_bytes())), "inserted"));
        }
        iroh_docs::verif::set_thread_sync_config(Some((max_set, split)));
        let res = (|| -> anyhow::Result<()> {
            for op in ops {
                match op {
                    Op::Cfg { .. } => {}
                    Op::Clock { i, t } => {
                        if *i < n {
                            sw.clocks[*i] = CLOCKS[*t % CLOCKS.len()];
                        }
                    }
                    Op::Write { i, a, key, c } if *i < n && *c >= 100 => {
                        // a local write of a half-empty or empty shape: refused, nothing is written
                        let author = &sw.keys.authors[*a % 3];
                        let (hash, len) = crate::c02::half_empty((*c - 100) as u8);
                        let now = sw.clocks[*i];
                        set_clock(now);
                        let e = iroh_docs::SignedEntry::from_parts(ns, author, key, iroh_docs::sync::Record::new(hash, len, now));
                        let mut r = sw.stores[*i].store.open_replica(&nsid)?;
                        let res = sw.rt.block_on(r.insert(key, author, hash, len));
                        drop(r);
                        sw.stores[*i].store.close_replica(nsid);
                        sw.lines.push(Line::model(format!("wrefused 1 {i} {}", honest_fp_tok(&e)), insert_result(res)));
                        sw.dump_lines(*i)?;
                    }
                    Op::Write { i, a, key, c } if *i < n => {
                        let author = &sw.keys.authors[*a % 3];
                        let (hash, len) = content(*c);
                        let now = sw.clocks[*i];
                        set_clock(now);
                        let e = make_entry(ns, author, key, Some(*c), now);
                        let mut r = sw.stores[*i].store.open_replica(&nsid)?;
                        // every other write goes through `hash_and_insert` (which hashes the bytes itself and
                        // does not report the number of removed entries)
                        let quiet = key.len() % 2 == 1;
                        let res = if quiet {
                            sw.rt.block_on(r.hash_and_insert(key, author, format!("content-{c}"))).map(|_| 0)
                        } else {
                            sw.rt.block_on(r.insert(key, author, hash, len))
                        };
                        drop(r);
                        sw.stores[*i].store.close_replica(nsid);
                        if res.is_ok() {
                            sw.written.push(e.clone());
                        }
                        let r = if quiet && res.is_ok() { "inserted".to_string() } else { insert_result(res) };
                        let q = if quiet { "q" } else { "" };
                        sw.lines.push(Line::model(format!("tlocal{q} {} {}", 10 + i, honest_fp_tok(&e)), r.clone()));
                        sw.lines.push(Line::model(format!("wlocal{q} 1 {i} {}", honest_fp_tok(&e)), r));
                        sw.dump_lines(*i)?;
                    }
                    Op::Delete { i, a, key } if *i < n => {
                        let author = &sw.keys.authors[*a % 3];
                        let now = sw.clocks[*i];
                        set_clock(now);
                        let e = make_entry(ns, author, key, None, now);
                        let mut r = sw.stores[*i].store.open_replica(&nsid)?;
                        let res = sw.rt.block_on(r.delete_prefix(key, author));
                        drop(r);
                        sw.stores[*i].store.close_replica(nsid);
                        if res.is_ok() {
                            sw.written.push(e.clone());
                        }
                        let r = insert_result(res);
                        sw.lines.push(Line::model(format!("tlocal {} {}", 10 + i, honest_fp_tok(&e)), r.clone()));
                        sw.lines.push(Line::model(format!("wlocal 1 {i} {}", honest_fp_tok(&e)), r));
                        sw.dump_lines(*i)?;
                    }
                    Op::Deliver { i, w } if *i < n => {
                        if sw.written.is_empty() {
                            continue;
                        }
                        let e = sw.written[*w % sw.written.len()].clone();
                        let now = sw.clocks[*i];
                        set_clock(now);
                        let mut r = sw.stores[*i].store.open_replica(&nsid)?;
                        let res = sw.rt.block_on(r.insert_remote_entry(e.clone(), PEER, ContentStatus::Missing));
                        drop(r);
                        sw.stores[*i].store.close_replica(nsid);
                        let r = insert_result(res);
                        sw.lines.push(Line::model(format!("tremote {} {} {now} {}", 10 + i, sw.nshex, honest_fp_tok(&e)), r.clone()));
                        sw.lines.push(Line::model(format!("wdeliver 1 {i} {} {now} {}", sw.nshex, honest_fp_tok(&e)), r));
                        sw.dump_lines(*i)?;
                    }
                    Op::Session { i, j, cut } if *i < n && *j < n && i != j => {
                        sw.session(*i, *j, *cut, false)?;
                    }
                    Op::Restart { i } if *i < n => {
                        sw.stores[*i].reopen()?;
                        sw.lines.push(Line::model(format!("treopen {}", 10 + i), "ok"));
                        sw.lines.push(Line::model(format!("wrestart 1 {i}"), "ok"));
                        sw.dump_lines(*i)?;
                    }
                    _ => {}
                }
            }
            // ---- the closing round: no more writes; every clock is past every timestamp ----
            for c in sw.clocks.iter_mut() {
                *c = CLOSING_NOW;
            }
            let mut pairs = vec![];
            for k in (1..n).rev() {
                pairs.push((k, parent(tree_seed, k)));
            }
            for k in 1..n {
                pairs.push((parent(tree_seed, k), k));
            }
            let pairs_tok = pairs.iter().map(|(a, b)| format!("{a}-{b}")).collect::<Vec<_>>().join(",");
            sw.lines.push(Line::oracle(format!("wconnects 1 {n} {pairs_tok}"), "connected"));
            sw.lines.push(Line::model("sconst closing-round", "closing-round"));
            for (a, b) in pairs {
                sw.session(a, b, None, true)?;
            }
            // ---- specification: every replica holds exactly the merge of all accepted writes ----
            for i in 0..n {
                let (d, _) = real_dump(&mut sw.stores[i].store, nsid)?;
                sw.lines.push(Line::oracle("wjoin 1", d));
                sw.no_foreign(i)?;
            }
            Ok(())
        })();
        iroh_docs::verif::set_thread_sync_config(None);
        set_clock(NOW);
        res?;
        Ok(sw.lines)
    }
    fn features(&self, ops: &[Op], lines: &[Line]) -> Vec<String> {
        let mut f = vec![];
        if let Some(Op::Cfg { n, file, .. }) = ops.first() {
            f.push(format!("replicas:{n}"));
            f.push(format!("file-stores:{}", file.iter().filter(|b| **b).count()));
        }
        let chaos: Vec<&Line> = lines.iter().take_while(|l| l.op != "sconst closing-round").collect();
        if chaos.iter().any(|l| l.op.starts_with("wdeliver") && l.imp == "err:future") {
            f.push("delivery-rejected-future".into());
        }
        if chaos.iter().any(|l| l.op.starts_with("wdeliver") && l.imp == "notinserted") {
            f.push("delivery-superseded-or-duplicate".into());
        }
        if chaos.iter().any(|l| l.op.starts_with("wdeliver") && l.imp.starts_with("inserted") && !l.imp.ends_with(" 0")) {
            f.push("delivery-prunes".into());
        }
        if chaos.iter().any(|l| l.op.starts_with("wlocal") && l.imp == "notinserted") {
            f.push("local-write-rejected".into());
        }
        if chaos.iter().any(|l| l.op.starts_with("wcarry")) {
            f.push("session-carried-entries".into());
        }
        if ops.iter().any(|o| matches!(o, Op::Session { cut: Some(_), .. })) {
            f.push("cut-session".into());
        }
        if ops.iter().any(|o| matches!(o, Op::Session { cut: None, .. })) {
            f.push("complete-session-in-history".into());
        }
        if lines.iter().any(|l| l.op == "sconst session-did-not-end") {
            if let Some(Op::Cfg { max_set, split, .. }) = ops.first() {
                f.push(format!("session-did-not-end(max_set={max_set},split={split})"));
            }
        }
        if ops.iter().any(|o| matches!(o, Op::Restart { .. })) {
            f.push("restart".into());
        }
        if ops.iter().any(|o| matches!(o, Op::Delete { .. })) {
            f.push("deletion".into());
        }
        let msgs = lines.iter().filter(|l| l.op.starts_with("tproc")).count();
        f.push(format!("messages:{}", match msgs { 0..=10 => "0-10", 11..=30 => "11-30", 31..=80 => "31-80", _ => "81+" }));
        f
    }
    fn nontrivial(&self, ops: &[Op], lines: &[Line]) -> bool {
        let writers: std::collections::BTreeSet<usize> = lines
            .iter()
            .filter(|l| l.op.starts_with("wlocal") && l.imp.starts_with("inserted"))
            .filter_map(|l| l.op.split(' ').nth(2).and_then(|s| s.parse().ok()))
            .collect();
        let fault = ops.iter().any(|o| matches!(o, Op::Session { cut: Some(_), .. } | Op::Restart { .. }))
            || lines.iter().any(|l| l.op.starts_with("wdeliver") && l.imp.starts_with("err:"));
        // states differed before the closing sweep: the sweep carried something
        let closing_carried = lines
            .iter()
            .skip_while(|l| l.op != "sconst closing-round")
            .any(|l| l.op.starts_with("tproc") && l.imp.contains(" ins ") && !l.imp.contains(" ins - "));
        writers.len() >= 2 && fault && closing_carried
    }
}
