//! Store-level operations shared by C07, C13, C15, C16, C17, C18: the real `Store` against the
//! table model (`Tables.lean`), plus per-property specification lines.

use iroh_docs::{
    store::{DownloadPolicy, FilterKind},
    sync::{Capability, ContentStatus},
    AuthorHeads, NamespaceId,
};
use serde::{Deserialize, Serialize};

use crate::{c02::gen_key, common::*, world::*};

#[derive(Clone, Debug, Serialize, Deserialize)]
pub struct Pol {
    pub everything: bool,
    /// (exact?, bytes)
    pub filters: Vec<(bool, Vec<u8>)>,
}

impl Pol {
    pub fn real(&self) -> DownloadPolicy {
        let fs = self
            .filters
            .iter()
            .map(|(x, b)| if *x { FilterKind::Exact(b.clone().into()) } else { FilterKind::Prefix(b.clone().into()) })
            .collect();
        if self.everything {
            DownloadPolicy::EverythingExcept(fs)
        } else {
            DownloadPolicy::NothingExcept(fs)
        }
    }
    pub fn tok(&self) -> String {
        format!(
            "{}:{}",
            if self.everything { "E" } else { "N" },
            self.filters
                .iter()
                .map(|(x, b)| format!("{}={}", if *x { "x" } else { "p" }, hex(b)))
                .collect::<Vec<_>>()
                .join(",")
        )
    }
}

pub fn policy_tok(p: &DownloadPolicy) -> String {
    let (k, fs) = match p {
        DownloadPolicy::EverythingExcept(fs) => ("E", fs),
        DownloadPolicy::NothingExcept(fs) => ("N", fs),
    };
    format!(
        "{}:{}",
        k,
        fs.iter()
            .map(|f| match f {
                FilterKind::Exact(b) => format!("x={}", hex(b)),
                FilterKind::Prefix(b) => format!("p={}", hex(b)),
            })
            .collect::<Vec<_>>()
            .join(",")
    )
}

/// documents with index `RAW_BASE + d` have hand-picked ids that are neighbours in byte order
/// (no signing key produces such ids): they are imported read-only and populated through hook H6
pub const RAW_BASE: usize = 100;

const fn raw_id(fill: u8, b30: u8, b31: u8) -> [u8; 32] {
    let mut x = [fill; 32];
    x[30] = b30;
    x[31] = b31;
    x
}

/// `P‖07‖FF`, its successor `P‖08‖00`, `P‖08‖80`, `P‖08‖FF`, `P‖09‖00`, and the two greatest ids
pub const RAW_NS: [[u8; 32]; 7] = [
    raw_id(0x50, 0x07, 0xFF),
    raw_id(0x50, 0x08, 0x00),
    raw_id(0x50, 0x08, 0x80),
    raw_id(0x50, 0x08, 0xFF),
    raw_id(0x50, 0x09, 0x00),
    raw_id(0xFF, 0xFF, 0xFE),
    raw_id(0xFF, 0xFF, 0xFF),
];

pub const RAW_AUTHORS: [[u8; 32]; 6] = [
    raw_id(0x60, 0x07, 0xFF),
    raw_id(0x60, 0x08, 0x00),
    raw_id(0x60, 0x08, 0xFF),
    raw_id(0x00, 0x00, 0x00),
    raw_id(0xFF, 0xFF, 0xFE),
    raw_id(0xFF, 0xFF, 0xFF),
];

/// an entry for arbitrary namespace / author bytes: the identifier of an honest entry is
/// overwritten in its postcard encoding (the signatures no longer verify; hook H6 does not check)
pub fn raw_entry(keys: &Keys, ns: &[u8; 32], author: &[u8; 32], key: &[u8], c: Option<usize>, ts: u64) -> iroh_docs::SignedEntry {
    let honest = make_entry(&keys.namespaces[0], &keys.authors[0], key, c, ts);
    let mut b = postcard::to_stdvec(&honest).expect("serialize");
    // 64 + 64 signature bytes, then the identifier as length-prefixed bytes
    let id_len = 64 + key.len();
    let off = 128 + if id_len < 128 { 1 } else { 2 };
    b[off..off + 32].copy_from_slice(ns);
    b[off + 32..off + 64].copy_from_slice(author);
    postcard::from_bytes(&b).expect("deserialize raw entry")
}

#[derive(Clone, Debug, Serialize, Deserialize)]
pub enum SOp {
    Open { file: bool },
    /// `import_namespace` of document `n` with write or read capability
    Import { n: usize, write: bool },
    OpenRep { n: usize },
    /// open through `Store::load_replica_info` (what the store actor does)
    OpenInfo { n: usize },
    CloseRep { n: usize },
    /// remote insert (any open state; opens and closes around it unless already open)
    Put { n: usize, a: usize, key: Vec<u8>, c: Option<usize>, ts: u64 },
    /// local insert through an opened replica (needs the write capability)
    LocalInsert { n: usize, a: usize, key: Vec<u8>, c: usize, ts: u64 },
    LocalDelete { n: usize, a: usize, key: Vec<u8>, ts: u64 },
    Remove { n: usize },
    Peer { n: usize, t: u64, p: u8 },
    SetPolicy { n: usize, pol: Pol },
    HasNews { n: usize, heads: Vec<(usize, u64)> },
    /// the author's secret key is imported into the store's authors table (nothing observable changes)
    ImportAuthor { a: usize },
    /// several remote inserts through *one* opened replica (as one reconciliation message or one gossip
    /// burst delivers them): state that lives as long as the replica handle is shared by them
    PutBatch { n: usize, entries: Vec<(usize, Vec<u8>, Option<usize>, u64)> },
    Reopen,
    /// C18: close the file store, delete derived tables with plain redb, open it again
    DropDerived {
        latest: bool,
        by_key: bool,
        /// also move the write capabilities into the first-generation table `namespaces-1`
        #[serde(default)]
        v1: bool,
        /// leave the dropped tables behind empty instead of absent (an open that was interrupted
        /// after it had created the tables and before it had filled them)
        #[serde(default)]
        truncate: bool,
    },
    /// observe everything observable about document `n`
    Observe { n: usize },
    ObserveAll,
    /// from here on, peer registrations, policies, head comparisons and their reads go through a
    /// `SyncHandle` (the store actor) instead of the store itself
    ViaActor,
}

pub struct StoreWorld<'a> {
    pub keys: &'a Keys,
    pub rs: RealStore,
    pub rt: tokio::runtime::Runtime,
    pub open: Vec<bool>,
    pub lines: Vec<Line>,
    /// which property's specification lines to add
    pub focus: &'static str,
    /// see `SOp::ViaActor`
    pub via_actor: bool,
    /// C17 with `via_actor`: one store actor that stays alive across requests (what a node runs), so
    /// that anything it remembers between requests is part of what is compared
    pub sticky: Option<iroh_docs::actor::SyncHandle>,
}

pub fn peer_id(p: u8) -> [u8; 32] {
    let mut b = [p; 32];
    b[0] = 0xEE;
    b
}

pub fn heads_tok(h: &[(String, u64)]) -> String {
    if h.is_empty() {
        "-".into()
    } else {
        h.iter().map(|(a, t)| format!("{a}={t}")).collect::<Vec<_>>().join(";")
    }
}

impl<'a> StoreWorld<'a> {
    pub fn new(keys: &'a Keys, file: bool, focus: &'static str) -> anyhow::Result<Self> {
        set_clock(NOW);
        Ok(StoreWorld {
            keys,
            rs: RealStore::new(file)?,
            rt: rt(),
            open: vec![false; RAW_BASE + RAW_NS.len()],
            lines: vec![Line::model("tnew 1", "ok")],
            focus,
            via_actor: false,
            sticky: None,
        })
    }
    /// run `f` with the store inside a store actor; the actor is shut down afterwards and hands the
    /// store back
    fn with_handle<R>(&mut self, f: impl FnOnce(&iroh_docs::actor::SyncHandle, &tokio::runtime::Runtime) -> R) -> anyhow::Result<R> {
        let store = std::mem::replace(&mut self.rs.store, iroh_docs::store::Store::memory());
        let handle = iroh_docs::actor::SyncHandle::spawn(store, None, "passthrough".into());
        let r = f(&handle, &self.rt);
        self.rs.store = self.rt.block_on(handle.shutdown())?;
        Ok(r)
    }
    /// a document-level request through the store actor: the document is opened there (the actor
    /// serves such requests for open documents only), the request made, the handle released.
    /// `None` when the actor cannot open the document (it does not exist): the caller then asks the
    /// store itself.
    fn via_doc<R>(
        &mut self,
        nsid: NamespaceId,
        f: impl FnOnce(&iroh_docs::actor::SyncHandle, &tokio::runtime::Runtime) -> R,
    ) -> anyhow::Result<Option<R>> {
        self.with_handle(|h, rt| {
            if rt.block_on(h.open(nsid, Default::default())).is_err() {
                return None;
            }
            let r = f(h, rt);
            let _ = rt.block_on(h.close(nsid));
            Some(r)
        })
    }
    fn nsid(&self, n: usize) -> NamespaceId {
        if n >= RAW_BASE {
            NamespaceId::from(&RAW_NS[(n - RAW_BASE) % RAW_NS.len()])
        } else {
            self.keys.namespaces[n].id()
        }
    }
    /// all documents: the real ones and the hand-picked ones
    pub fn all_docs(&self) -> Vec<usize> {
        (0..self.keys.namespaces.len()).chain((0..RAW_NS.len()).map(|d| RAW_BASE + d)).collect()
    }
    fn nshex(&self, n: usize) -> String {
        hex(self.nsid(n).as_bytes())
    }

    pub fn observe(&mut self, n: usize) -> anyhow::Result<()> {
        let nsid = self.nsid(n);
        let nsh = self.nshex(n);
        let store = &mut self.rs.store;
        // entries
        let d = dump(store, nsid)?;
        self.lines.push(Line::model(format!("tquery 1 {nsh} flat-ak * any - 0 1 0"), d));
        // heads
        let mut hs = Vec::new();
        let mut headts: Vec<(String, u64)> = Vec::new();
        for h in store.get_latest_for_each_author(nsid)? {
            let (a, ts, key) = h?;
            hs.push(format!("{}:{}:{}", hex(a.as_bytes()), ts, hex(&key)));
            headts.push((hex(a.as_bytes()), ts));
        }
        let heads_line = format!("heads {} {}", hs.len(), hs.join(";"));
        self.lines.push(Line::model(format!("theads 1 {nsh}"), heads_line));
        if matches!(self.focus, "C13" | "C18" | "C16" | "C06") {
            // specification: head = greatest timestamp among the author's entries held
            self.lines.push(Line::oracle(format!("sheads 1 {nsh}"), format!("headts {}", heads_tok(&headts))));
            // … and the key recorded with a head is the key of an entry of that author with that timestamp
            self.lines.push(Line::oracle(format!("sheadkeys 1 {nsh} {}", if hs.is_empty() { "-".to_string() } else { hs.join(";") }), "head-keys-name-held-entries"));
        }
        if self.focus == "C18" || self.focus == "C16" {
            // key-ordered queries answered through the by-key index (rebuilt, C18; untouched by the
            // removal of another document, C16)
            for (qt, q) in [
                ("flat-ka * any - 0 1 0", iroh_docs::store::Query::all().include_empty()
                    .sort_by(iroh_docs::store::SortBy::KeyAuthor, iroh_docs::store::SortDirection::Asc).build()),
                ("flat-ka * any - 0 0 1", iroh_docs::store::Query::all()
                    .sort_by(iroh_docs::store::SortBy::KeyAuthor, iroh_docs::store::SortDirection::Desc).build()),
                ("latest * any - 0 1 0", iroh_docs::store::Query::single_latest_per_key().include_empty().build()),
            ] {
                let mut toks = Vec::new();
                for e in store.get_many(nsid, q)? {
                    toks.push(stored_tok(&e?));
                }
                let imp = entries_line(&toks);
                self.lines.push(Line::model(format!("tquery 1 {nsh} {qt}"), imp.clone()));
                self.lines.push(Line::oracle(format!("squery 1 {nsh} {qt}"), imp));
            }
        }
        // peers
        let via = if self.via_actor && !self.open[n] { self.via_doc(nsid, |h, rt| rt.block_on(h.get_sync_peers(nsid)))? } else { None };
        let peers = match via {
            Some(got) => match got? {
                None => "none".to_string(),
                Some(v) => format!("peers {} {}", v.len(), v.iter().map(|p| hex(p)).collect::<Vec<_>>().join(";")),
            },
            None => match self.rs.store.get_sync_peers(&nsid)? {
                None => "none".to_string(),
                Some(it) => {
                    let v: Vec<String> = it.map(|p| hex(&p)).collect();
                    format!("peers {} {}", v.len(), v.join(";"))
                }
            },
        };
        self.lines.push(Line::model(format!("tpeers 1 {nsh}"), peers.clone()));
        if self.focus == "C17" || self.focus == "C16" {
            self.lines.push(Line::oracle(format!("speers 1 {nsh}"), peers));
        }
        // policy
        let via = if self.via_actor && !self.open[n] { self.via_doc(nsid, |h, rt| rt.block_on(h.get_download_policy(nsid)))? } else { None };
        let pol = match via {
            Some(p) => p?,
            None => self.rs.store.get_download_policy(&nsid)?,
        };
        self.lines.push(Line::model(format!("tgetpolicy 1 {nsh}"), policy_tok(&pol)));
        if self.focus == "C15" || self.focus == "C16" {
            // specification: the policy set last since the document was created, else the default
            self.lines.push(Line::oracle(format!("sgetpolicy 1 {nsh}"), policy_tok(&pol)));
        }
        Ok(())
    }

    pub fn observe_global(&mut self) -> anyhow::Result<()> {
        let store = &mut self.rs.store;
        let mut v = Vec::new();
        for r in store.list_namespaces()? {
            let (id, kind) = r?;
            v.push(format!("{}={}", hex(id.as_bytes()), u8::from(kind)));
        }
        self.lines.push(Line::model("tnamespaces 1", format!("namespaces {}", v.join(";"))));
        let mut hs: Vec<String> = Vec::new();
        if self.via_actor {
            // what the garbage-collection protection task asks the store actor for
            let got = self.with_handle(|h, rt| {
                rt.block_on(async {
                    let it = h.content_hashes().await?;
                    let mut v = vec![];
                    for x in it {
                        v.push(hex(x?.as_bytes()));
                    }
                    anyhow::Ok(v)
                })
            })??;
            hs = got;
        } else {
            for h in self.rs.store.content_hashes()? {
                hs.push(hex(h?.as_bytes()));
            }
        }
        hs.sort();
        let line = format!("hashes {} {}", hs.len(), hs.join(";"));
        self.lines.push(Line::model("thashes 1", line.clone()));
        if self.focus == "C16" {
            // specification: exactly the hashes of the entries currently held in any document
            self.lines.push(Line::oracle("shashes 1", line));
        }
        Ok(())
    }

    /// the store is with us again (the long-lived actor, if any, is shut down and hands it back)
    pub fn ensure_store(&mut self) -> anyhow::Result<()> {
        if let Some(h) = self.sticky.take() {
            self.rs.store = self.rt.block_on(h.shutdown())?;
        }
        Ok(())
    }
    fn sticky_handle(&mut self) -> iroh_docs::actor::SyncHandle {
        if self.sticky.is_none() {
            let store = std::mem::replace(&mut self.rs.store, iroh_docs::store::Store::memory());
            self.sticky = Some(iroh_docs::actor::SyncHandle::spawn(store, None, "sticky".into()));
        }
        self.sticky.clone().unwrap()
    }
    /// C17 through one long-lived store actor: imports, removal, registrations and reads of the peer
    /// list. Returns false for requests the actor has no counterpart for.
    fn apply_sticky(&mut self, op: &SOp) -> anyhow::Result<bool> {
        match op {
            SOp::Import { n, write } if *n < RAW_BASE => {
                let cap = if *write { Capability::Write(self.keys.namespaces[*n].clone()) } else { Capability::Read(self.nsid(*n)) };
                let (kind, raw) = cap.raw();
                let h = self.sticky_handle();
                let imp = match self.rt.block_on(h.import_namespace(cap)) { Ok(_) => "ok".to_string(), Err(e) => format!("err:{e}") };
                self.lines.push(Line::model(format!("tnsq 1 {} {} {}", self.nshex(*n), kind, hex(&raw)), imp));
                Ok(true)
            }
            SOp::Remove { n } => {
                let nsid = self.nsid(*n);
                let h = self.sticky_handle();
                let imp = match self.rt.block_on(h.drop_replica(nsid)) {
                    Ok(()) => "ok".to_string(),
                    Err(e) if e.to_string().contains("not closed") => "err:not-closed".to_string(),
                    Err(e) => format!("err:{e}"),
                };
                self.lines.push(Line::model(format!("tremove 1 {}", self.nshex(*n)), imp));
                Ok(true)
            }
            SOp::Peer { n, t, p } => {
                let nsid = self.nsid(*n);
                let pid = peer_id(*p);
                let h = self.sticky_handle();
                let imp = self.rt.block_on(async {
                    if h.open(nsid, Default::default()).await.is_err() {
                        // the actor serves this request for open documents only; an unknown document
                        // cannot be opened
                        return "err:no-document".to_string();
                    }
                    let r = h.register_useful_peer(nsid, pid).await;
                    let _ = h.close(nsid).await;
                    match r {
                        Ok(()) => "ok".to_string(),
                        Err(e) if e.to_string().contains("document not created") => "err:no-document".to_string(),
                        Err(e) => format!("err:{e}"),
                    }
                });
                std::thread::sleep(std::time::Duration::from_micros(50));
                self.lines.push(Line::model(format!("tpeer 1 {} {} {}", self.nshex(*n), t * 1000, hex(&pid)), imp));
                Ok(true)
            }
            SOp::Observe { n } => {
                let nsid = self.nsid(*n);
                let nsh = self.nshex(*n);
                let h = self.sticky_handle();
                let peers = self.rt.block_on(async {
                    if h.open(nsid, Default::default()).await.is_err() {
                        return anyhow::Ok("none".to_string());
                    }
                    let got = h.get_sync_peers(nsid).await;
                    let _ = h.close(nsid).await;
                    Ok(match got? {
                        None => "none".to_string(),
                        Some(v) => format!("peers {} {}", v.len(), v.iter().map(|p| hex(p)).collect::<Vec<_>>().join(";")),
                    })
                })?;
                self.lines.push(Line::model(format!("tpeers 1 {nsh}"), peers.clone()));
                self.lines.push(Line::oracle(format!("speers 1 {nsh}"), peers));
                Ok(true)
            }
            SOp::ObserveAll => {
                for n in 0..self.keys.namespaces.len() {
                    self.apply_sticky(&SOp::Observe { n })?;
                }
                Ok(true)
            }
            _ => Ok(false),
        }
    }

    pub fn apply(&mut self, op: &SOp) -> anyhow::Result<()> {
        set_clock(NOW);
        if self.via_actor && self.focus == "C17" {
            if self.apply_sticky(op)? {
                return Ok(());
            }
            self.ensure_store()?;
        }
        match op {
            SOp::Open { .. } => {}
            SOp::Import { n, write } => {
                let cap = if *n >= RAW_BASE {
                    Capability::Read(self.nsid(*n))
                } else if *write {
                    Capability::Write(self.keys.namespaces[*n].clone())
                } else {
                    Capability::Read(self.nsid(*n))
                };
                let (kind, raw) = cap.raw();
                let out = self.rs.store.import_namespace(cap)?;
                use iroh_docs::store::ImportNamespaceOutcome::*;
                let imp = match out {
                    Inserted => "inserted",
                    Upgraded => "upgraded",
                    NoChange => "nochange",
                };
                self.lines.push(Line::model(format!("tns 1 {} {} {}", self.nshex(*n), kind, hex(&raw)), imp));
            }
            SOp::OpenRep { n } => {
                let nsid = self.nsid(*n);
                let imp = match self.rs.store.open_replica(&nsid) {
                    Ok(r) => {
                        let kind = u8::from(r.capability().kind());
                        drop(r);
                        self.open[*n] = true;
                        format!("ok {kind}")
                    }
                    Err(iroh_docs::store::OpenError::NotFound) => "err:not-found".to_string(),
                    Err(e) => format!("err:{e}"),
                };
                self.lines.push(Line::model(format!("topen 1 {}", self.nshex(*n)), imp));
            }
            SOp::OpenInfo { n } => {
                let nsid = self.nsid(*n);
                let imp = match self.rs.store.load_replica_info(&nsid) {
                    Ok(_info) => {
                        // the capability kind as the store lists it
                        let kind = self
                            .rs
                            .store
                            .list_namespaces()?
                            .filter_map(|r| r.ok())
                            .find(|(id, _)| *id == nsid)
                            .map(|(_, k)| u8::from(k))
                            .unwrap_or(0);
                        self.open[*n] = true;
                        format!("ok {kind}")
                    }
                    Err(iroh_docs::store::OpenError::NotFound) => "err:not-found".to_string(),
                    Err(e) => format!("err:{e}"),
                };
                self.lines.push(Line::model(format!("topen 1 {}", self.nshex(*n)), imp));
            }
            SOp::CloseRep { n } => {
                self.rs.store.close_replica(self.nsid(*n));
                self.open[*n] = false;
                self.lines.push(Line::model(format!("tclose 1 {}", self.nshex(*n)), "ok"));
            }
            SOp::Put { n, a, key, c, ts } if *n >= RAW_BASE => {
                let nsb = RAW_NS[(*n - RAW_BASE) % RAW_NS.len()];
                let aub = RAW_AUTHORS[*a % RAW_AUTHORS.len()];
                let e = raw_entry(self.keys, &nsb, &aub, key, *c, *ts);
                // only into documents that exist (as every insert through the API requires)
                let nsid = self.nsid(*n);
                let was_open = self.open[*n];
                match self.rs.store.open_replica(&nsid) {
                    Ok(r) => {
                        drop(r);
                        if !was_open {
                            self.rs.store.close_replica(nsid);
                        }
                    }
                    Err(_) => return Ok(()),
                }
                let res = self.rs.store.verif_put_unvalidated(e.clone())?;
                let imp = match res {
                    Some(k) => format!("inserted {k}"),
                    None => "notinserted".to_string(),
                };
                self.lines.push(Line::model(format!("tput 1 {}", stored_tok(&e)), imp));
            }
            SOp::LocalInsert { n, .. } | SOp::LocalDelete { n, .. } if *n >= RAW_BASE => {}
            SOp::Put { n, a, key, c, ts } => {
                let ns = &self.keys.namespaces[*n];
                let e = make_entry(ns, &self.keys.authors[*a], key, *c, *ts);
                let was_open = self.open[*n];
                match self.rs.store.open_replica(&ns.id()) {
                    Ok(mut r) => {
                        // the sender's content status varies: the download decision must not depend on it
                        let status = match (key.len() as u64 + *ts) % 3 {
                            0 => ContentStatus::Missing,
                            1 => ContentStatus::Incomplete,
                            _ => ContentStatus::Complete,
                        };
                        let (ev_tx, ev_rx) = async_channel::unbounded();
                        if self.focus == "C15" {
                            r.verif_info_mut().subscribe(ev_tx);
                        }
                        let res = self.rt.block_on(r.insert_remote_entry(e.clone(), PEER, status));
                        drop(r);
                        if self.focus == "C15" {
                            // specification: the event's download flag is what the document's policy says for the key
                            if let Ok(iroh_docs::sync::Event::RemoteInsert { should_download, .. }) = ev_rx.try_recv() {
                                let pol = self.rs.store.get_download_policy(&ns.id())?;
                                self.lines.push(Line::oracle(format!("spolicymatch {} {}", policy_tok(&pol), hex(key)), format!("{}", should_download as u8)));
                            }
                        }
                        if !was_open {
                            self.rs.store.close_replica(ns.id());
                        }
                        let line = insert_result(res);
                        if self.focus == "C07" {
                            // specification: a validly signed remote entry is accepted whatever the capability
                            // (it is stored or superseded, never refused for want of the write secret)
                            let ok = line.starts_with("inserted") || line == "notinserted";
                            self.lines.push(Line::oracle("sconst remote-entry-accepted-without-write-capability", if ok { "remote-entry-accepted-without-write-capability".to_string() } else { format!("remote-entry-refused:{line}") }));
                        }
                        self.lines.push(Line::model(format!("tputns 1 {}", honest_tok(&e)), line));
                    }
                    Err(_) => {
                        self.lines.push(Line::model(format!("tputns 1 {}", honest_tok(&e)), "err:not-found"));
                    }
                }
            }
            SOp::LocalInsert { n, a, key, c, ts } => {
                let ns = &self.keys.namespaces[*n];
                let author = &self.keys.authors[*a];
                let (hash, len) = content(*c);
                let was_open = self.open[*n];
                set_clock(*ts);
                let e = make_entry(ns, author, key, Some(*c), *ts);
                match self.rs.store.open_replica(&ns.id()) {
                    Ok(mut r) => {
                        let res = self.rt.block_on(r.insert(key, author, hash, len));
                        drop(r);
                        if !was_open {
                            self.rs.store.close_replica(ns.id());
                        }
                        self.lines.push(Line::model(format!("tlocal 1 {}", honest_tok(&e)), insert_result(res)));
                    }
                    Err(_) => self.lines.push(Line::model(format!("tlocal 1 {}", honest_tok(&e)), "err:not-found")),
                }
                set_clock(NOW);
            }
            SOp::LocalDelete { n, a, key, ts } => {
                let ns = &self.keys.namespaces[*n];
                let author = &self.keys.authors[*a];
                let was_open = self.open[*n];
                set_clock(*ts);
                let e = make_entry(ns, author, key, None, *ts);
                match self.rs.store.open_replica(&ns.id()) {
                    Ok(mut r) => {
                        let res = self.rt.block_on(r.delete_prefix(key, author));
                        drop(r);
                        if !was_open {
                            self.rs.store.close_replica(ns.id());
                        }
                        self.lines.push(Line::model(format!("tlocal 1 {}", honest_tok(&e)), insert_result(res)));
                    }
                    Err(_) => self.lines.push(Line::model(format!("tlocal 1 {}", honest_tok(&e)), "err:not-found")),
                }
                set_clock(NOW);
            }
            SOp::Remove { n } => {
                let nsid = self.nsid(*n);
                let res = self.rs.store.remove_replica(&nsid);
                let imp = match res {
                    Ok(()) => "ok".to_string(),
                    Err(e) if e.to_string().contains("not closed") => "err:not-closed".to_string(),
                    Err(e) => format!("err:{e}"),
                };
                let ok = imp == "ok";
                if self.focus == "C16" && (ok || imp == "err:not-closed") {
                    // specification: removal is refused exactly while the document is open
                    self.lines.push(Line::oracle(format!("sisopen 1 {}", self.nshex(*n)), if ok { "closed" } else { "open" }));
                }
                self.lines.push(Line::model(format!("tremove 1 {}", self.nshex(*n)), imp));
                if ok && self.focus == "C16" {
                    // specification: nothing of the document can be observed any more
                    let clean = self.is_clean(*n)?;
                    self.lines.push(Line::oracle(format!("tclean 1 {}", self.nshex(*n)), clean));
                }
            }
            SOp::ViaActor => self.via_actor = true,
            SOp::Peer { n, t, p } => {
                set_clock(*t);
                // via the actor its thread reads the system clock: registrations are then ordered by real
                // time, which increases like the generated times do (no case mixes the two clocks)
                let nsid = self.nsid(*n);
                let pid = peer_id(*p);
                // (not in the C16 histories: they open documents at the store, which would mix the two clocks)
                let via = if self.via_actor && self.focus != "C16" && !self.open[*n] { self.via_doc(nsid, |h, rt| rt.block_on(h.register_useful_peer(nsid, pid)))? } else { None };
                let res = match via {
                    Some(r) => {
                        std::thread::sleep(std::time::Duration::from_micros(50));
                        r
                    }
                    None => self.rs.store.register_useful_peer(nsid, pid),
                };
                set_clock(NOW);
                let imp = match res {
                    Ok(()) => "ok".to_string(),
                    Err(e) if e.to_string().contains("document not created") => "err:no-document".to_string(),
                    Err(e) => format!("err:{e}"),
                };
                self.lines.push(Line::model(
                    format!("tpeer 1 {} {} {}", self.nshex(*n), t * 1000, hex(&peer_id(*p))),
                    imp,
                ));
            }
            SOp::SetPolicy { n, pol } => {
                let nsid = self.nsid(*n);
                let real = pol.real();
                let via = if self.via_actor && !self.open[*n] { self.via_doc(nsid, |h, rt| rt.block_on(h.set_download_policy(nsid, real)))? } else { None };
                let res = match via {
                    Some(r) => r,
                    None => self.rs.store.set_download_policy(&nsid, pol.real()),
                };
                let imp = match res {
                    Ok(()) => "ok".to_string(),
                    Err(e) if e.to_string().contains("document not created") => "err:no-document".to_string(),
                    Err(e) => format!("err:{e}"),
                };
                self.lines.push(Line::model(format!("tsetpolicy 1 {} {}", self.nshex(*n), pol.tok()), imp));
            }
            SOp::PutBatch { n, entries } => {
                let ns = &self.keys.namespaces[*n];
                let was_open = self.open[*n];
                match self.rs.store.open_replica(&ns.id()) {
                    Ok(mut r) => {
                        for (a, key, c, ts) in entries {
                            let e = make_entry(ns, &self.keys.authors[*a], key, *c, *ts);
                            let res = self.rt.block_on(r.insert_remote_entry(e.clone(), PEER, ContentStatus::Complete));
                            self.lines.push(Line::model(format!("tputns 1 {}", honest_tok(&e)), insert_result(res)));
                        }
                        drop(r);
                        if !was_open {
                            self.rs.store.close_replica(ns.id());
                        }
                    }
                    Err(_) => {
                        for (a, key, c, ts) in entries {
                            let e = make_entry(ns, &self.keys.authors[*a], key, *c, *ts);
                            self.lines.push(Line::model(format!("tputns 1 {}", honest_tok(&e)), "err:not-found"));
                        }
                    }
                }
            }
            SOp::ImportAuthor { a } => {
                self.rs.store.import_author(self.keys.authors[*a].clone())?;
            }
            SOp::HasNews { n, heads } => {
                let mut h = AuthorHeads::default();
                let mut toks: Vec<(String, u64)> = Vec::new();
                for (a, ts) in heads {
                    let id = self.keys.authors[*a].id();
                    h.insert(id, *ts);
                }
                for (a, ts) in h.iter() {
                    toks.push((hex(a.as_bytes()), *ts));
                }
                let nsid = self.nsid(*n);
                let hh = h.clone();
                let via = if self.via_actor && !self.open[*n] { self.via_doc(nsid, |hd, rt| rt.block_on(hd.has_news_for_us(nsid, hh)))? } else { None };
                let res = match via {
                    Some(r) => r?,
                    None => self.rs.store.has_news_for_us(nsid, &h)?,
                };
                let imp = format!("news {}", res.map(|x| x.get()).unwrap_or(0));
                self.lines.push(Line::model(format!("thasnews 1 {} {}", self.nshex(*n), heads_tok(&toks)), imp.clone()));
                if self.focus == "C13" {
                    // specification: authors named with a strictly newer timestamp than any entry
                    // held, or unknown
                    self.lines.push(Line::oracle(format!("shasnews 1 {} {}", self.nshex(*n), heads_tok(&toks)), imp));
                }
            }
            SOp::DropDerived { latest, by_key, v1, truncate } => {
                if let Some(f) = &self.rs.file {
                    self.rs.store.flush()?;
                    let old = std::mem::replace(&mut self.rs.store, iroh_docs::store::Store::memory());
                    drop(old);
                    {
                        use redb::{ReadableTable, TableHandle};
                        let db = redb::Database::create(f.path())?;
                        let tx = db.begin_write()?;
                        let names: Vec<String> = tx.list_tables()?.map(|h| h.name().to_string()).collect();
                        for h in tx.list_tables()? {
                            if (*latest && h.name() == "latest-by-author-1") || (*by_key && h.name() == "records-by-key-1") {
                                tx.delete_table(h)?;
                            }
                        }
                        let _ = names;
                        if *truncate {
                            const LATEST: redb::TableDefinition<(&[u8; 32], &[u8; 32]), (u64, &[u8])> = redb::TableDefinition::new("latest-by-author-1");
                            const BY_KEY: redb::TableDefinition<(&[u8; 32], &[u8], &[u8; 32]), ()> = redb::TableDefinition::new("records-by-key-1");
                            if *latest {
                                let _ = tx.open_table(LATEST)?;
                            }
                            if *by_key {
                                let _ = tx.open_table(BY_KEY)?;
                            }
                        }
                        if *v1 {
                            // a database from before `namespaces-2`: id -> secret for the write capabilities
                            const V1: redb::TableDefinition<&[u8; 32], &[u8; 32]> = redb::TableDefinition::new("namespaces-1");
                            const V2: redb::TableDefinition<&[u8; 32], (u8, &[u8; 32])> = redb::TableDefinition::new("namespaces-2");
                            let mut moved: Vec<([u8; 32], [u8; 32])> = vec![];
                            {
                                let t2 = tx.open_table(V2)?;
                                for row in t2.iter()? {
                                    let (k, v) = row?;
                                    let (kind, bytes) = v.value();
                                    if kind == 1 {
                                        moved.push((*k.value(), *bytes));
                                    }
                                }
                            }
                            {
                                let mut t2 = tx.open_table(V2)?;
                                let mut t1 = tx.open_table(V1)?;
                                for (id, secret) in &moved {
                                    t2.remove(id)?;
                                    t1.insert(id, secret)?;
                                }
                            }
                        }
                        tx.commit()?;
                    }
                    self.rs.store = iroh_docs::store::Store::persistent(f.path())?;
                    for n in 0..self.open.len() {
                        if self.open[n] {
                            self.open[n] = false;
                            self.lines.push(Line::model(format!("tclose 1 {}", self.nshex(n)), "ok"));
                        }
                    }
                    self.lines.push(Line::model(format!("tmigrate 1 {} {}{}", *latest as u8, *by_key as u8, if *v1 { " v1" } else { "" }), "ok"));
                }
            }
            SOp::Reopen => {
                self.rs.reopen()?;
                if self.rs.file.is_some() {
                    self.lines.push(Line::model("treopen 1", "ok"));
                    // a reopened store has no open replicas
                    for n in 0..self.open.len() {
                        if self.open[n] {
                            self.open[n] = false;
                            self.lines.push(Line::model(format!("tclose 1 {}", self.nshex(n)), "ok"));
                        }
                    }
                }
            }
            SOp::Observe { n } => self.observe(*n)?,
            SOp::ObserveAll => {
                let docs = if self.focus == "C16" { self.all_docs() } else { (0..self.keys.namespaces.len()).collect() };
                for n in docs {
                    self.observe(n)?;
                }
                self.observe_global()?;
            }
        }
        Ok(())
    }

    /// `clean` when nothing of document `n` is observable through the store API
    pub fn is_clean(&mut self, n: usize) -> anyhow::Result<String> {
        let nsid = self.nsid(n);
        let store = &mut self.rs.store;
        let mut dirty = Vec::new();
        if store.get_many(nsid, iroh_docs::store::Query::all().include_empty())?.next().is_some() {
            dirty.push("records");
        }
        if store
            .get_many(
                nsid,
                iroh_docs::store::Query::all()
                    .include_empty()
                    .sort_by(iroh_docs::store::SortBy::KeyAuthor, iroh_docs::store::SortDirection::Asc),
            )?
            .next()
            .is_some()
        {
            dirty.push("by-key");
        }
        if store.get_latest_for_each_author(nsid)?.next().is_some() {
            dirty.push("heads");
        }
        if store.get_sync_peers(&nsid)?.is_some() {
            dirty.push("peers");
        }
        if store.get_download_policy(&nsid)? != DownloadPolicy::default() {
            dirty.push("policy");
        }
        for r in store.list_namespaces()? {
            if r?.0 == nsid {
                dirty.push("capability");
            }
        }
        Ok(if dirty.is_empty() { "clean".into() } else { format!("dirty:{}", dirty.join("+")) })
    }
}

// ---- generators shared by the store-level properties -------------------------------------

pub fn gen_pol(rng: &mut Rng) -> Pol {
    let n = rng.below(4);
    Pol {
        everything: rng.chance(1, 2),
        filters: (0..n)
            .map(|_| {
                let mut k = gen_key(rng);
                if rng.chance(1, 5) {
                    k = vec![0xC3, 0x28, 0xFF]; // invalid UTF-8
                }
                (rng.chance(1, 2), k)
            })
            .collect(),
    }
}

pub fn gen_put(rng: &mut Rng, n_ns: usize, n_au: usize) -> SOp {
    SOp::Put {
        n: rng.below(n_ns),
        a: rng.below(n_au),
        key: gen_key(rng),
        c: if rng.chance(1, 4) { None } else { Some(rng.below(3)) },
        ts: *rng.pick(&crate::c02::TIMES),
    }
}
