//! C11 — at most one sync session per peer and document, and the slot is always freed.
//!
//! Two real live actors (hook H4: the coordination handlers are called directly, their dials are
//! recorded instead of performed) on real endpoints; the harness plays the network and the task
//! completions according to a schedule; after every step the slot state of both nodes is compared
//! with the Lean model of the protocol, and the specifications (at most one session in progress;
//! quiescent ⇒ both ready) are evaluated.

use std::sync::Mutex;

use iroh::{endpoint::presets, Endpoint};
use iroh_docs::{
    actor::SyncHandle,
    engine::{verif_live::Coordinator, SyncReason},
    net::{AbortReason, AcceptError, AcceptOutcome, ConnectError, SyncFinished},
    NamespaceSecret, SyncOutcome,
};
use serde::{Deserialize, Serialize};

use crate::{common::*, syncmsg::honest_fp_tok, world::{make_entry, NOW, PEER}};

#[derive(Clone, Debug, Serialize, Deserialize)]
pub enum Op {
    /// which of the two nodes sync the document; `early_*`: the node was asked to sync the document
    /// before it existed there (the request failed)
    Setup {
        sync_a: bool,
        sync_b: bool,
        #[serde(default)]
        early_a: bool,
        #[serde(default)]
        early_b: bool,
    },
    /// pick the `k % enabled`-th enabled scheduler action
    Choose { k: usize },
    /// a concrete action (corpus): `dial n report`, `report n v`, `deliver n`, `lose n`, `cc n i`, `ca n sid`, `cd n`
    Act { a: String },
}

struct NodeRt {
    coord: Coordinator,
    id: iroh::PublicKey,
    _sync: SyncHandle,
    _endpoint: Endpoint,
}

struct World {
    rt: tokio::runtime::Runtime,
    nodes: Vec<NodeRt>, // 0 = the smaller id (A), 1 = the greater id (B)
    doc_counter: u32,
}

pub struct C11 {
    world: Mutex<Option<World>>,
    /// run as the engine-level part of C17: same schedules; the violations are reported under C17
    /// (what is looked at there: a peer is remembered as useful exactly after a successful session)
    registration_mode: bool,
}

#[derive(Clone, Debug, PartialEq)]
enum CPhase {
    Requesting,
    Declined(bool),
    Failed,
    InSession(usize),
}

#[derive(Default)]
struct Net {
    ctasks: [Vec<(CPhase, SyncReason)>; 2],
    atasks: [Vec<usize>; 2],
    declined: [Vec<bool>; 2],
    dials: [usize; 2],
    sessions: usize,
}

impl C11 {
    pub fn new() -> Self {
        C11 { world: Mutex::new(None), registration_mode: false }
    }
    pub fn registration() -> Self {
        C11 { world: Mutex::new(None), registration_mode: true }
    }
    fn build_world() -> anyhow::Result<World> {
        let rt = tokio::runtime::Builder::new_multi_thread().worker_threads(2).enable_all().build()?;
        let mut nodes = vec![];
        for i in 0..2u8 {
            let node = rt.block_on(async {
                let endpoint = Endpoint::builder(presets::Minimal)
                    .secret_key(iroh::SecretKey::from_bytes(&[0x31 + i; 32]))
                    .bind()
                    .await
                    .map_err(|e| anyhow::anyhow!("bind: {e}"))?;
                let gossip = iroh_gossip::net::Gossip::builder().spawn(endpoint.clone());
                let blobs = iroh_blobs::store::mem::MemStore::new();
                let downloader = blobs.downloader(&endpoint);
                let store = iroh_docs::store::Store::memory();
                let sync = SyncHandle::spawn(store, None, format!("c11-{i}"));
                let coord = Coordinator::new(sync.clone(), endpoint.clone(), gossip, (*blobs).clone(), downloader)?;
                anyhow::Ok(NodeRt { coord, id: endpoint.id(), _sync: sync, _endpoint: endpoint })
            })?;
            nodes.push(node);
        }
        nodes.sort_by_key(|n| *n.id.as_bytes());
        Ok(World { rt, nodes, doc_counter: 0 })
    }
}

fn enabled(net: &Net) -> Vec<String> {
    let mut v = vec![];
    for n in 0..2 {
        v.push(format!("dial {n} 0"));
        v.push(format!("dial {n} 1"));
    }
    // a sync report arrives from the peer (handled by the real `on_sync_report`): heads variant v
    for n in 0..2 {
        for v_ in 0..7 {
            v.push(format!("report {n} {v_}"));
        }
    }
    // gossip tells node n that the other node is no longer its neighbour (a session may be running)
    for n in 0..2 {
        v.push(format!("ndown {n}"));
    }
    for n in 0..2 {
        if net.ctasks[n].iter().any(|t| t.0 == CPhase::Requesting) {
            v.push(format!("deliver {n}"));
            v.push(format!("lose {n}"));
        }
        for (i, t) in net.ctasks[n].iter().enumerate() {
            if t.0 != CPhase::Requesting {
                v.push(format!("cc {n} {i}"));
            }
        }
        for sid in &net.atasks[n] {
            v.push(format!("ca {n} {sid}"));
        }
        if !net.declined[n].is_empty() {
            v.push(format!("cd {n}"));
        }
    }
    v
}

impl Property for C11 {
    type Op = Op;
    fn id(&self) -> &'static str {
        if self.registration_mode { "C17" } else { "C11" }
    }
    fn case_prefix(&self) -> &'static str {
        if self.registration_mode { "engine-" } else { "" }
    }
    fn parallel(&self) -> bool {
        false
    }
    fn rule(&self) -> String {
        "schedules of 4-40 scheduler actions over two real live actors and one document (both syncing, or one of them not): dial decisions (new neighbour / sync report) by either node, sync reports handled by the real on_sync_report (heads older, equal, newer than the entry held, an unknown author (also with timestamp 0), no heads, undecodable bytes; dial exactly on news), delivery or loss of the oldest outstanding request, loss of the gossip neighbour (also while a session with it runs), processing of connect-task completions (declined AlreadySyncing / NotFound, failed to connect, session end ok or failed), of accept-task completions (ok, session failed, connection lost while closing) and of declined-accept completions, each chosen among the currently enabled actions; dials are weighted down so that completions catch up; non-trivial = at least 2 dials and one session or one decline; distinct = distinct concrete schedules".into()
    }
    fn corpus(&self) -> Vec<(String, Vec<Op>)> {
        let acts = |v: &[&str]| -> Vec<Op> {
            let mut o = vec![Op::Setup { sync_a: true, sync_b: true, early_a: false, early_b: false }];
            o.extend(v.iter().map(|a| Op::Act { a: a.to_string() }));
            o
        };
        vec![
            // F9 (i): both dial, A declines B's request, A's own request is lost
            ("f9-winner-lost".into(), acts(&["dial 0 0", "dial 1 0", "lose 0", "deliver 1", "cc 0 0", "cd 0", "cc 1 0"])),
            // F9 (ii): B's session with A ends at B first; B re-dials before A booked the end
            ("f9-late-bookkeeping".into(), acts(&["dial 1 0", "deliver 1", "cc 1 0", "dial 1 0", "deliver 1", "cd 0", "cc 1 0", "ca 0 0"])),
            ("simultaneous-dials-both-orders".into(), acts(&["dial 0 0", "dial 1 0", "deliver 0", "deliver 1", "cd 0", "cc 1 0", "cc 0 0", "ca 1 0"])),
            // the requester's end is over, it dials again while the acceptor's task of the first
            // session still runs; later the acceptor dials too
            ("redial-while-accept-task-runs".into(), acts(&["dial 0 0", "deliver 0", "cc 0 0", "dial 0 0", "deliver 0", "ca 1 0", "dial 1 0", "deliver 1", "cc 0 0", "cd 1", "cc 1 0", "ca 0 1"])),
            ("redial-while-accept-task-runs-b".into(), acts(&["dial 1 0", "deliver 1", "cc 1 0", "dial 1 0", "deliver 1", "ca 0 0", "dial 0 0", "deliver 0", "cc 1 0", "cd 0", "cc 0 0", "ca 1 1"])),
            // a neighbour is lost while a session with it runs, and while a refused report waits for its follow-up
            ("neighbor-down-during-session".into(), acts(&["dial 0 0", "deliver 0", "ndown 1", "dial 0 0", "deliver 0", "cd 1", "cc 0 1", "dial 0 1", "ndown 0", "cc 0 0", "ca 1 0"])),
            ("refused-report-follow-up".into(), acts(&["dial 0 0", "deliver 0", "dial 0 1", "dial 0 1", "cc 0 0", "ca 1 0", "deliver 0", "cc 0 0", "ca 1 1"])),
            // the node that does not sync was asked to sync the document before it existed there
            ("failed-start-sync-is-not-syncing".into(), {
                let mut o = vec![Op::Setup { sync_a: true, sync_b: false, early_a: true, early_b: true }];
                o.extend(["dial 0 0", "deliver 0", "cd 1", "cc 0 0", "dial 1 0"].iter().map(|a| Op::Act { a: a.to_string() }));
                o
            }),
            ("not-syncing-is-not-found".into(), {
                let mut o = vec![Op::Setup { sync_a: true, sync_b: false, early_a: false, early_b: false }];
                o.extend(["dial 0 0", "deliver 0", "cd 1", "cc 0 0", "dial 1 0"].iter().map(|a| Op::Act { a: a.to_string() }));
                o
            }),
        ]
    }
    fn generate(&self, rng: &mut Rng, _i: usize, thorough: bool) -> Vec<Op> {
        let mut ops = vec![Op::Setup { sync_a: !rng.chance(1, 10), sync_b: !rng.chance(1, 10), early_a: rng.chance(1, 4), early_b: rng.chance(1, 4) }];
        for _ in 0..rng.range(4, if thorough { 80 } else { 40 }) {
            ops.push(Op::Choose { k: rng.below(1 << 20) });
        }
        ops
    }
    fn execute(&self, ops: &[Op]) -> anyhow::Result<Vec<Line>> {
        let mut guard = self.world.lock().unwrap();
        // the two nodes are reused from case to case, but not for ever: the live actor's loop does not run
        // here, so nothing reads the channel on which the replicas report their inserts to it (1024 places,
        // one used per case and node)
        if guard.as_ref().map(|w| w.doc_counter >= 400).unwrap_or(true) {
            *guard = None;
            *guard = Some(Self::build_world()?);
        }
        let w = guard.as_mut().unwrap();
        w.doc_counter += 1;
        let mut secret = [0x77u8; 32];
        secret[..4].copy_from_slice(&w.doc_counter.to_be_bytes());
        let ns = NamespaceSecret::from_bytes(&secret);
        let nsid = ns.id();
        let (sync_a, sync_b, early) = match ops.first() {
            Some(Op::Setup { sync_a, sync_b, early_a, early_b }) => (*sync_a, *sync_b, [*early_a, *early_b]),
            _ => (true, true, [false, false]),
        };
        let syncing = [sync_a, sync_b];
        let mut lines = vec![Line::model(format!("cnew 1 1 {} {}", sync_a as u8, sync_b as u8), "ok")];
        let ids = [w.nodes[0].id, w.nodes[1].id];
        iroh_docs::verif::set_dial_recording(true);
        let World { rt, nodes, .. } = w;
        let res: anyhow::Result<()> = rt.block_on(async {
            // the document exists on both nodes; the syncing ones start syncing it
            for n in 0..2 {
                if early[n] {
                    // the document is not there yet: the request to sync it has to fail, and must not leave
                    // the node believing that it syncs the document
                    anyhow::ensure!(nodes[n].coord.start_sync(nsid).await.is_err(), "start_sync of an unknown document succeeded");
                }
                nodes[n]._sync.import_namespace(iroh_docs::sync::Capability::Write(ns.clone())).await?;
                if syncing[n] {
                    nodes[n].coord.start_sync(nsid).await?;
                }
            }
            // both nodes hold one entry of author A at time 10 (what sync reports are compared with)
            let author_a = iroh_docs::Author::from_bytes(&[0x41; 32]);
            let author_b = iroh_docs::Author::from_bytes(&[0x42; 32]);
            let held = make_entry(&ns, &author_a, b"k", Some(0), 10);
            for n in 0..2 {
                nodes[n]._sync.open(nsid, iroh_docs::actor::OpenOpts::default().sync()).await?;
                nodes[n]._sync.insert_remote(nsid, held.clone(), PEER, iroh_docs::ContentStatus::Missing).await?;
                nodes[n]._sync.close(nsid).await?;
            }
            let nshex = hex(nsid.as_bytes());
            lines.push(Line::model("tnew 7", "ok"));
            lines.push(Line::model(format!("tns 7 {nshex} 1 {}", hex(&ns.to_bytes())), "inserted"));
            lines.push(Line::model(format!("tput 7 {}", honest_fp_tok(&held)), "inserted 0"));
            let _ = NOW;
            let _ = iroh_docs::verif::take_dials();
            let mut net = Net::default();
            let mut fin_toggle = false;
            let mut accept_fail_kind = 0usize;
            // refused sync reports not yet followed up, per node (for the follow-up specification)
            // C17 at the engine: a session that ended well at node m makes the peer a useful peer of the document there
            let mut succeeded = [false; 2];
            let mut pending_report = [false; 2];
            // … and whether a session that started after the report already covers it
            let mut covered = [false; 2];
            for op in ops {
                let act = match op {
                    Op::Setup { .. } => continue,
                    Op::Act { a } => a.clone(),
                    Op::Choose { k } => {
                        let en = enabled(&net);
                        // weigh dials down: 4 dial actions are always enabled
                        let non_dials: Vec<&String> = en.iter().filter(|a| !a.starts_with("dial") && !a.starts_with("report") && !a.starts_with("ndown")).collect();
                        if !non_dials.is_empty() && k % 3 != 0 {
                            non_dials[(k / 3) % non_dials.len()].clone()
                        } else {
                            en[(k / 3) % en.len()].clone()
                        }
                    }
                };
                if std::env::var("VERIF_TRACE").is_ok() {
                    eprintln!("c11 act {act}");
                }
                let t: Vec<&str> = act.split(' ').collect();
                let n: usize = t[1].parse().unwrap();
                let other = 1 - n;
                let mk_finished = |peer: iroh::PublicKey| SyncFinished { namespace: nsid, peer, outcome: SyncOutcome::default(), timings: Default::default() };
                // for a report: (heads as the specification reads them, is it news by construction)
                let mut report_spec: Option<(String, bool)> = None;
                let mut not_found_spec: Option<String> = None;
                let resync_before = nodes[n].coord.snapshot(nsid, ids[other]).map(|s| s.1).unwrap_or(false);
                match t[0] {
                    "report" => {
                        let v: usize = t[2].parse().unwrap();
                        let mut h = iroh_docs::AuthorHeads::default();
                        let (tok, news) = match v {
                            0 => { h.insert(author_a.id(), 9); (format!("{}=9", hex(author_a.id().as_bytes())), false) }
                            1 => { h.insert(author_a.id(), 10); (format!("{}=10", hex(author_a.id().as_bytes())), false) }
                            2 => { h.insert(author_a.id(), 11); (format!("{}=11", hex(author_a.id().as_bytes())), true) }
                            3 => { h.insert(author_b.id(), 1); (format!("{}=1", hex(author_b.id().as_bytes())), true) }
                            6 => { h.insert(author_b.id(), 0); (format!("{}=0", hex(author_b.id().as_bytes())), true) }
                            _ => ("-".to_string(), false),
                        };
                        let bytes = if v == 5 { vec![0xFF, 0xFF, 0xFF] } else { h.encode(None)? };
                        nodes[n].coord.on_sync_report(ids[other], nsid, bytes).await;
                        report_spec = Some((tok, news));
                    }
                    "ndown" => {
                        // `NeighborDown`: an event for the subscribers, nothing else
                        nodes[n].coord.neighbor_down(nsid, ids[other]).await?;
                    }
                    "dial" => {
                        let reason = if t[2] == "1" { SyncReason::SyncReport } else { SyncReason::NewNeighbor };
                        nodes[n].coord.sync_with_peer(nsid, ids[other], reason);
                    }
                    "deliver" => {
                        if let Some(i) = net.ctasks[n].iter().position(|c| c.0 == CPhase::Requesting) {
                            let outcome = nodes[other].coord.accept_sync_request(nsid, ids[n]);
                            if !syncing[other] {
                                not_found_spec = Some(match &outcome {
                                    AcceptOutcome::Reject(AbortReason::NotFound) => "not-syncing-is-declined-as-not-found".to_string(),
                                    AcceptOutcome::Reject(r) => format!("not-syncing-declined-as-{r:?}"),
                                    AcceptOutcome::Allow => "not-syncing-but-accepted".to_string(),
                                });
                            }
                            match outcome {
                                AcceptOutcome::Allow => {
                                    covered[other] = true;
                                    let sid = net.sessions;
                                    net.sessions += 1;
                                    net.ctasks[n][i].0 = CPhase::InSession(sid);
                                    net.atasks[other].push(sid);
                                }
                                AcceptOutcome::Reject(r) => {
                                    let already = r == AbortReason::AlreadySyncing;
                                    net.ctasks[n][i].0 = CPhase::Declined(already);
                                    net.declined[other].push(already);
                                }
                            }
                        }
                    }
                    "lose" => {
                        if let Some(i) = net.ctasks[n].iter().position(|c| c.0 == CPhase::Requesting) {
                            net.ctasks[n][i].0 = CPhase::Failed;
                        }
                    }
                    "cc" => {
                        let i: usize = t[2].parse().unwrap();
                        if i < net.ctasks[n].len() && net.ctasks[n][i].0 != CPhase::Requesting {
                            let (phase, reason) = net.ctasks[n].remove(i);
                            fin_toggle = !fin_toggle;
                            let result = match phase {
                                CPhase::Declined(true) => Err(ConnectError::RemoteAbort(AbortReason::AlreadySyncing)),
                                CPhase::Declined(false) => Err(ConnectError::RemoteAbort(AbortReason::NotFound)),
                                CPhase::Failed => Err(ConnectError::Connect { error: anyhow::anyhow!("connection lost") }),
                                CPhase::InSession(_) => {
                                    if fin_toggle {
                                        succeeded[n] = true;
                                        Ok(mk_finished(ids[other]))
                                    } else {
                                        Err(ConnectError::Sync { error: anyhow::anyhow!("session failed") })
                                    }
                                }
                                CPhase::Requesting => unreachable!(),
                            };
                            nodes[n].coord.on_sync_via_connect_finished(nsid, ids[other], reason, result).await;
                        }
                    }
                    "ca" => {
                        let sid: usize = t[2].parse().unwrap();
                        if let Some(pos) = net.atasks[n].iter().position(|s| *s == sid) {
                            net.atasks[n].remove(pos);
                            fin_toggle = !fin_toggle;
                            accept_fail_kind += 1;
                            let res = if fin_toggle {
                                succeeded[n] = true;
                                Ok(mk_finished(ids[other]))
                            } else if accept_fail_kind % 2 == 0 {
                                Err(AcceptError::Sync { peer: ids[other], namespace: Some(nsid), error: anyhow::anyhow!("session failed") })
                            } else {
                                // the connection was lost: closing the streams fails after the session
                                Err(AcceptError::Close { peer: ids[other], namespace: Some(nsid), error: anyhow::anyhow!("connection lost") })
                            };
                            nodes[n].coord.on_sync_via_accept_finished(res).await;
                        }
                    }
                    "cd" => {
                        if !net.declined[n].is_empty() {
                            let already = net.declined[n].remove(0);
                            let reason = if already { AbortReason::AlreadySyncing } else { AbortReason::NotFound };
                            nodes[n].coord.on_sync_via_accept_finished(Err(AcceptError::Abort { peer: ids[other], namespace: nsid, reason })).await;
                        }
                    }
                    _ => anyhow::bail!("unknown action {act}"),
                }
                // dials decided by the handlers of node n (the dial itself, or a follow-up)
                let mut dialed = [false; 2];
                let mut follow_up_spec: Option<String> = None;
                for (dns, peer, reason) in iroh_docs::verif::take_dials() {
                    anyhow::ensure!(dns == nsid, "dial for another document");
                    let from = if peer == ids[1] { 0 } else { 1 };
                    dialed[from] = true;
                    if matches!(reason, SyncReason::Resync) {
                        // specification: a follow-up dial answers a refused report, once
                        if !pending_report[from] {
                            follow_up_spec = Some(format!("follow-up-dial-without-a-pending-refused-report:node{from}"));
                        }
                        pending_report[from] = false;
                    }
                    covered[from] = true;
                    net.ctasks[from].push((CPhase::Requesting, reason));
                    net.dials[from] += 1;
                }
                if let Some((tok, _)) = &report_spec {
                    // specification (C13 at the engine): a report leads to a dial (or, while the slot is
                    // busy, to a pending follow-up) exactly when it names news
                    if syncing[n] && !resync_before {
                        let resync_now = nodes[n].coord.snapshot(nsid, ids[other]).map(|s| s.1).unwrap_or(false);
                        let obs = if dialed[n] || resync_now { "dial" } else { "quiet" };
                        lines.push(Line::oracle(format!("snewsdial 7 {nshex} {tok}"), obs));
                    }
                }
                let is_news_report = matches!(&report_spec, Some((_, true)));
                if ((t[0] == "dial" && t[2] == "1") || is_news_report) && syncing[n] && !dialed[n] {
                    // a sync report that did not lead to a dial: refused because the slot is busy
                    pending_report[n] = true;
                    covered[n] = false;
                }
                let mut snap = vec![];
                for m in 0..2 {
                    let s = nodes[m].coord.snapshot(nsid, ids[1 - m]);
                    snap.push(match s {
                        Some((st, resync)) => format!("{},{},{}", st, resync as u8, net.dials[m]),
                        None => format!("-,{}", net.dials[m]),
                    });
                }
                let imp = format!("a={} b={} sessions={}", snap[0], snap[1], net.sessions);
                // the protocol model sees a report with news as a dial decision, one without as nothing
                let model_act = match &report_spec {
                    Some((_, true)) => Some(format!("dial {n} 1")),
                    Some((_, false)) => None,
                    // the protocol model has no step for a lost neighbour: nothing may change
                    None if t[0] == "ndown" => None,
                    None => Some(act.clone()),
                };
                if let Some(a) = model_act {
                    lines.push(Line::model(format!("cstep 1 1 {a}"), imp.clone()));
                } else {
                    lines.push(Line::model("csnap 1 1", imp.clone()));
                }
                // specifications on the implementation's observables
                let quiescent = net.ctasks.iter().all(|c| c.is_empty()) && net.atasks.iter().all(|c| c.is_empty()) && net.declined.iter().all(|c| c.is_empty());
                let ready = (0..2).all(|m| match nodes[m].coord.snapshot(nsid, ids[1 - m]) { Some((st, _)) => st == 0, None => true });
                // sessions in progress: both ends unfinished
                let in_progress = (0..net.sessions).filter(|sid| {
                    (0..2).any(|m| net.ctasks[m].iter().any(|c| c.0 == CPhase::InSession(*sid))) && (0..2).any(|m| net.atasks[m].contains(sid))
                }).count();
                lines.push(Line::model("cspec 1", format!("inprogress<=1:{} quiescent:{} ready:{}", (in_progress <= 1) as u8, quiescent as u8, ready as u8)));
                lines.push(Line::oracle("sconst at-most-one-session", if in_progress <= 1 { "at-most-one-session".to_string() } else { format!("{in_progress}-sessions-in-progress") }));
                if quiescent {
                    lines.push(Line::oracle("sconst quiescent-implies-ready", if ready { "quiescent-implies-ready" } else { "quiescent-but-marked-busy" }));
                    if follow_up_spec.is_none() {
                        if let Some(m) = (0..2).find(|m| pending_report[*m] && !covered[*m]) {
                            follow_up_spec = Some(format!("refused-report-never-followed-up:node{m}"));
                        }
                    }
                }
                if let Some(v) = not_found_spec {
                    lines.push(Line::oracle("sconst not-syncing-is-declined-as-not-found", v));
                }
                // specification (C17 at the engine): the other node is remembered as a useful peer of the
                // document exactly when a session with it has ended well at this node
                for m in 0..2 {
                    if syncing[m] {
                        let got = match nodes[m]._sync.get_sync_peers(nsid).await {
                            Ok(None) => "none".to_string(),
                            Ok(Some(l)) => l.iter().map(|p| hex(p)).collect::<Vec<_>>().join(","),
                            Err(e) => format!("err:{e:#}"),
                        };
                        let want = if succeeded[m] { hex(ids[1 - m].as_bytes()) } else { "none".to_string() };
                        lines.push(Line::oracle(format!("sconst useful-peers-of-node{m}:{want}"), format!("useful-peers-of-node{m}:{got}")));
                    }
                }
                lines.push(Line::oracle("sconst one-follow-up-per-refused-report", follow_up_spec.unwrap_or_else(|| "one-follow-up-per-refused-report".into())));
            }
            // leave the document so that the next case starts clean
            Ok(())
        });
        iroh_docs::verif::set_dial_recording(false);
        res?;
        Ok(lines)
    }
    fn features(&self, _ops: &[Op], lines: &[Line]) -> Vec<String> {
        let mut f = vec![];
        for l in lines {
            if l.op.starts_with("snewsdial") {
                f.push(format!("report-decision:{}", l.imp));
            }
            if l.op.starts_with("csnap") {
                f.push("action:report-without-news".to_string());
            }
            if l.op.starts_with("cstep") {
                let t: Vec<&str> = l.op.split(' ').collect();
                f.push(format!("action:{}", t[3]));
            }
            if l.imp.contains("quiescent:1") {
                f.push("reached-quiescence".into());
            }
        }
        if let Some(last) = lines.iter().rev().find(|l| l.op.starts_with("cstep")) {
            if let Some(s) = last.imp.split("sessions=").nth(1) {
                f.push(format!("sessions:{}", s.parse::<usize>().map(|n| n.min(4)).unwrap_or(0)));
            }
        }
        f.sort();
        f.dedup();
        f
    }
    fn nontrivial(&self, _ops: &[Op], lines: &[Line]) -> bool {
        let dials = lines.iter().filter(|l| l.op.starts_with("cstep") && l.op.contains(" dial ")).count();
        dials >= 2 && lines.iter().any(|l| l.op.contains(" deliver "))
    }
}
