//! A whole docs node behind its client API (`DocsApi` / `Doc` → `RpcActor` → `Engine` / live actor →
//! store actor → store), one sequential client. The component runs under several property ids
//! (C05, C12, C14, C15, C16, C17): the requests are the same, the id only decides which check it
//! is part of.
//!
//! Model: `Model/Node.lean` (every handler of `src/api/actor.rs` that needs no second node,
//! `Engine::{start_sync, leave, subscribe}`, the default author, the pass-through arms of the store
//! actor, the hashes handed to the blob store's garbage-collection protection).
//! Specification lines (they follow the acknowledged requests only):
//!   `nsquery` / `nsexact`  C05  query specification over the merge of the acknowledged writes
//!   `events=` + `expect`   C12  exactly one insert event per applied write on every live subscription
//!   `nspolicy`             C15  the policy set last, or the default; unknown documents refuse
//!   `nshashes`             C16  protected hashes = hashes of the entries held in any document
//!   `nspeers`              C17  the five most recently registered distinct peers, newest first

use std::{collections::HashSet, pin::Pin, time::Duration};

use iroh::endpoint::{presets, Endpoint};
use iroh_docs::{
    actor::SyncHandle,
    api::{
        protocol::{AddrInfoOptions, ShareMode},
        Doc, DocsApi,
    },
    engine::{DefaultAuthorStorage, Engine, LiveEvent, ProtectCallbackHandler},
    protocol::Docs,
    store::Query,
    sync::Capability,
    Author, AuthorId, CapabilityKind, Entry, NamespaceId,
};
use n0_future::{Stream, StreamExt};
use serde::{Deserialize, Serialize};

use crate::{
    c02::gen_key,
    c05::{Kf, C05, Q},
    common::*,
    storeops::{gen_pol, policy_tok, Pol},
    world::*,
};

#[derive(Clone, Debug, Serialize, Deserialize)]
pub enum Op {
    Create,
    Import { n: usize, write: bool },
    Open { n: usize },
    Close { n: usize, h: usize },
    Status { n: usize, h: usize },
    Drop { n: usize },
    /// `shape`: 0 = proper content, 1 = the empty hash with a length, 2 = a content hash with length 0;
    /// `bytes`: through `set_bytes` (the node hashes the content itself) instead of `set_hash`
    Set {
        n: usize,
        h: usize,
        a: usize,
        key: Vec<u8>,
        c: usize,
        dt: u64,
        #[serde(default)]
        shape: u8,
        #[serde(default)]
        bytes: bool,
    },
    Del { n: usize, h: usize, a: usize, key: Vec<u8>, dt: u64 },
    GetExact { n: usize, h: usize, a: usize, key: Vec<u8>, incl: bool },
    GetMany { n: usize, h: usize, q: Q },
    SetPolicy { n: usize, h: usize, pol: Pol },
    GetPolicy { n: usize, h: usize },
    Peers { n: usize, h: usize },
    RegPeer { n: usize, p: usize },
    StartSync { n: usize, h: usize },
    Leave { n: usize, h: usize },
    Share { n: usize, h: usize, write: bool },
    Subscribe { n: usize, h: usize },
    AuthorCreate,
    AuthorImport { a: usize },
    AuthorExport { a: usize },
    AuthorDelete { a: usize },
    AuthorList,
    AuthorDefault,
    AuthorSetDefault { a: usize },
    Hashes,
    List,
}

pub struct ApiNode {
    pub id: &'static str,
    pub keys: Keys,
    q: C05,
}

impl ApiNode {
    pub fn new(id: &'static str) -> Self {
        ApiNode { id, keys: Keys::new(3, 3), q: C05::new() }
    }
}

fn err_kind(e: &anyhow::Error) -> String {
    let s = format!("{e:#}").to_lowercase();
    if s.contains("replica not open") {
        "err:not-open".into()
    } else if s.contains("read only") || s.contains("read access only") {
        "err:read-only".into()
    } else if s.contains("author not found") || s.contains("author does not exist") {
        "err:author-not-found".into()
    } else if s.contains("default author") {
        "err:default-author".into()
    } else if s.contains("document not created") {
        "err:no-document".into()
    } else if s.contains("not closed") {
        "err:not-closed".into()
    } else if s.contains("sync is not enabled") {
        "err:sync-disabled".into()
    } else if s.contains("not found") {
        "err:not-found".into()
    } else if s.contains("newer entry") {
        "notinserted".into()
    } else if s.contains("empty entry") {
        "err:entry-is-empty".into()
    } else {
        format!("err:{s}")
    }
}

/// entry token of an honestly signed entry from its fields
fn tok(ns: &NamespaceId, author: &AuthorId, key: &[u8], ts: u64, len: u64, hash: &iroh_blobs::Hash) -> String {
    format!("{},{},{},{},{},{},0,1,1", hex(ns.as_bytes()), hex(author.as_bytes()), hex(key), ts, len, hex(hash.as_bytes()))
}

fn entry_tok_plain(e: &Entry) -> String {
    tok(&e.namespace(), &e.author(), e.key(), e.timestamp(), e.content_len(), &e.content_hash())
}

type Events = Pin<Box<dyn Stream<Item = anyhow::Result<LiveEvent>> + Send + 'static>>;

struct Sub {
    n: usize,
    stream: Events,
    /// by the history of acknowledged requests the document has held a handle ever since
    alive: bool,
    /// the stream has ended (it must not be polled again)
    ended: bool,
}

struct Node {
    api: DocsApi,
    docs: Docs,
    endpoint: Endpoint,
    sync: SyncHandle,
    protect: iroh_blobs::store::ProtectCb,
}

async fn spawn_node() -> anyhow::Result<Node> {
    let endpoint = Endpoint::builder(presets::Minimal).bind().await.map_err(|e| anyhow::anyhow!("bind: {e}"))?;
    let gossip = iroh_gossip::net::Gossip::builder().spawn(endpoint.clone());
    let blobs = iroh_blobs::store::mem::MemStore::new();
    let blobs_api: iroh_blobs::api::Store = (*blobs).clone();
    let (handler, protect) = ProtectCallbackHandler::new();
    let downloader = blobs_api.downloader(&endpoint);
    let engine = Engine::spawn(
        endpoint.clone(),
        gossip,
        iroh_docs::store::Store::memory(),
        blobs_api,
        downloader,
        DefaultAuthorStorage::Mem,
        Some(handler),
    )
    .await?;
    let sync = engine.sync.clone();
    let docs = Docs::new(engine);
    Ok(Node { api: docs.api().clone(), docs, endpoint, sync, protect })
}

/// peer ids that are not curve points: `start_sync` ignores them instead of dialing
fn undialable_peers() -> Vec<[u8; 32]> {
    let mut out = vec![];
    let mut i = 0u8;
    while out.len() < 7 {
        let mut b = [i; 32];
        b[0] = 0xEE;
        b[31] = i.wrapping_mul(37);
        if iroh::PublicKey::from_bytes(&b).is_err() {
            out.push(b);
        }
        i = i.wrapping_add(1);
    }
    out
}

const T0: u64 = NOW;

impl Property for ApiNode {
    type Op = Op;
    fn id(&self) -> &'static str {
        self.id
    }
    fn case_prefix(&self) -> &'static str {
        "node-"
    }
    fn parallel(&self) -> bool {
        false
    }
    fn rule(&self) -> String {
        "WHOLE NODE BEHIND THE CLIENT API: sequences of 4-30 requests of one sequential client to a real in-memory docs node (DocsApi/Doc -> RpcActor -> Engine/live actor -> store actor -> store) over three known documents plus documents made by create: import, create, open, close, status, drop, set_hash, del, get_exact, get_many (full query product), set/get download policy, get_sync_peers, registrations of useful peers through the node's store handle, start_sync without peers, leave, share, subscribe, the author requests and the default author, the content hashes handed to the garbage-collection protection callback, list; the clock moves forwards, stands still or jumps back between writes; after every request the document list is read; non-trivial = at least one applied write observed by a query, an event, or the protection callback".into()
    }
    fn corpus(&self) -> Vec<(String, Vec<Op>)> {
        let k = |s: &str| s.as_bytes().to_vec();
        vec![
            ("node-basic".into(), vec![
                Op::AuthorImport { a: 0 },
                Op::Import { n: 0, write: true },
                Op::Subscribe { n: 0, h: 0 },
                Op::Set { n: 0, h: 0, a: 0, key: k("a"), c: 0, dt: 1, shape: 0, bytes: false },
                Op::Set { n: 0, h: 0, a: 0, key: k("ab"), c: 1, dt: 1, shape: 0, bytes: false },
                Op::Del { n: 0, h: 0, a: 0, key: k("a"), dt: 1 },
                Op::GetMany { n: 0, h: 0, q: Q { kind: 0, author: None, kf: Kf::Any, limit: None, offset: 0, incl: true, desc: false } },
                Op::Hashes,
                Op::SetPolicy { n: 0, h: 0, pol: Pol { everything: false, filters: vec![(false, k("a"))] } },
                Op::GetPolicy { n: 0, h: 0 },
                Op::RegPeer { n: 0, p: 0 },
                Op::RegPeer { n: 0, p: 1 },
                Op::Peers { n: 0, h: 0 },
                Op::StartSync { n: 0, h: 0 },
                Op::Status { n: 0, h: 0 },
                Op::Close { n: 0, h: 0 },
                Op::Set { n: 0, h: 0, a: 0, key: k("b"), c: 2, dt: 1, shape: 0, bytes: false },
                Op::Open { n: 0 },
                Op::Set { n: 0, h: 0, a: 0, key: k("b"), c: 2, dt: 1, shape: 0, bytes: false },
                Op::Leave { n: 0, h: 0 },
                Op::Drop { n: 0 },
                Op::Hashes,
                Op::Import { n: 0, write: false },
                Op::GetPolicy { n: 0, h: 0 },
                Op::Peers { n: 0, h: 0 },
                Op::GetMany { n: 0, h: 0, q: Q { kind: 1, author: None, kf: Kf::Any, limit: None, offset: 0, incl: true, desc: false } },
            ]),
            ("node-list-then-drop".into(), vec![
                Op::Import { n: 1, write: true },
                Op::Import { n: 0, write: true },
                Op::Close { n: 0, h: 0 },
                Op::List,
                Op::Drop { n: 0 },
                Op::List,
                Op::AuthorList,
                Op::Create,
                Op::AuthorList,
            ]),
            ("node-failed-open-then-register".into(), vec![
                Op::Open { n: 1 },
                Op::RegPeer { n: 1, p: 0 },
                Op::Import { n: 1, write: false },
                Op::Peers { n: 1, h: 0 },
                Op::RegPeer { n: 1, p: 1 },
                Op::Peers { n: 1, h: 0 },
            ]),
            ("node-start-sync-of-a-removed-document".into(), vec![
                Op::Import { n: 0, write: true },
                Op::Drop { n: 0 },
                Op::StartSync { n: 0, h: 0 },
                Op::Status { n: 0, h: 0 },
                Op::Import { n: 0, write: true },
                Op::StartSync { n: 0, h: 0 },
                Op::Status { n: 0, h: 0 },
                Op::Leave { n: 0, h: 0 },
                Op::Status { n: 0, h: 0 },
                Op::GetMany { n: 0, h: 0, q: Q { kind: 0, author: None, kf: Kf::Any, limit: None, offset: 0, incl: true, desc: false } },
            ]),
            ("node-default-author".into(), vec![
                Op::AuthorDefault,
                Op::AuthorDelete { a: 3 },
                Op::AuthorSetDefault { a: 1 },
                Op::AuthorImport { a: 1 },
                Op::AuthorSetDefault { a: 1 },
                Op::AuthorDelete { a: 1 },
                Op::AuthorDelete { a: 3 },
                Op::AuthorDefault,
                Op::AuthorList,
                Op::Create,
                Op::Set { n: 3, h: 0, a: 3, key: k("x"), c: 0, dt: 1, shape: 0, bytes: false },
                Op::Set { n: 3, h: 0, a: 1, key: k("x"), c: 0, dt: 0, shape: 0, bytes: false },
                Op::Share { n: 3, h: 0, write: true },
                Op::Status { n: 3, h: 0 },
            ]),
        ]
    }
    fn generate(&self, rng: &mut Rng, _i: usize, thorough: bool) -> Vec<Op> {
        let max = if thorough { 30 } else { 20 };
        let mut ops = vec![];
        // most cases start with a writable document and an author so that the interesting requests have something to act on
        if rng.chance(4, 5) {
            ops.push(Op::AuthorImport { a: 0 });
            ops.push(Op::Import { n: 0, write: rng.chance(5, 6) });
        }
        for _ in 0..rng.range(4, max) {
            let n = if rng.chance(2, 3) { 0 } else { rng.below(4) };
            let h = rng.below(3);
            let a = if rng.chance(2, 3) { 0 } else { rng.below(5) };
            let dt = *rng.pick(&[1u64, 1, 1, 0, 5, u64::MAX]);
            ops.push(match rng.below(40) {
                0 => Op::Create,
                1..=3 => Op::Import { n, write: rng.chance(2, 3) },
                4..=5 => Op::Open { n },
                6 => Op::Close { n, h },
                7 => Op::Status { n, h },
                8..=9 => Op::Drop { n },
                10..=16 => Op::Set { n, h, a, key: gen_key(rng), c: rng.below(3), dt, shape: if rng.chance(1, 8) { 1 + rng.below(2) as u8 } else { 0 }, bytes: rng.chance(1, 4) },
                17..=18 => Op::Del { n, h, a, key: gen_key(rng), dt },
                19 => Op::GetExact { n, h, a, key: gen_key(rng), incl: rng.chance(1, 2) },
                20..=22 => Op::GetMany { n, h, q: gen_q(rng) },
                23..=24 => Op::SetPolicy { n, h, pol: gen_pol(rng) },
                25 => Op::GetPolicy { n, h },
                26 => Op::Peers { n, h },
                27..=29 => Op::RegPeer { n, p: rng.below(7) },
                30 => Op::StartSync { n, h },
                31 => Op::Leave { n, h },
                32 => Op::Share { n, h, write: rng.chance(1, 2) },
                33..=34 => Op::Subscribe { n, h },
                35 => match rng.below(3) {
                    0 => Op::AuthorCreate,
                    _ => Op::AuthorImport { a: rng.below(3) },
                },
                36 => match rng.below(3) {
                    0 => Op::AuthorExport { a },
                    1 => Op::AuthorDelete { a },
                    _ => Op::AuthorSetDefault { a },
                },
                37 => if rng.chance(1, 2) { Op::AuthorList } else { Op::AuthorDefault },
                38 => Op::Hashes,
                _ => Op::List,
            });
        }
        ops.push(Op::Hashes);
        ops
    }
    fn execute(&self, ops: &[Op]) -> anyhow::Result<Vec<Line>> {
        let rt = tokio::runtime::Builder::new_multi_thread().worker_threads(2).enable_all().build()?;
        iroh_docs::verif::set_clock_micros(Some(T0));
        let res = rt.block_on(self.run_case(ops));
        iroh_docs::verif::set_clock_micros(None);
        res
    }
    fn features(&self, ops: &[Op], lines: &[Line]) -> Vec<String> {
        let mut f = vec![];
        for o in ops {
            f.push(format!("req:{}", format!("{o:?}").split([' ', '{']).next().unwrap_or("")));
        }
        for l in lines {
            if l.op.starts_with("node 1") {
                let kind = l.op.split(' ').nth(2).unwrap_or("");
                f.push(format!("reply:{}:{}", kind, l.imp.split(' ').next().unwrap()));
                if l.imp.contains("events=") && !l.imp.ends_with("events=") {
                    f.push("event-delivered".into());
                }
            }
        }
        if self.nontrivial(ops, lines) {
            f.push("applied-write-observed".into());
        }
        f.sort();
        f.dedup();
        f
    }
    fn nontrivial(&self, _ops: &[Op], lines: &[Line]) -> bool {
        let wrote = lines.iter().any(|l| l.op.starts_with("node 1 set") && l.imp.starts_with("inserted"));
        let seen = lines.iter().any(|l| {
            (l.op.starts_with("node 1 getmany") && l.imp.starts_with("entries ") && !l.imp.starts_with("entries 0"))
                || (l.op.starts_with("node 1 hashes") && l.imp.len() > "hashes ".len())
                || (l.imp.contains("events=") && !l.imp.ends_with("events="))
        });
        wrote && seen
    }
}

fn gen_q(rng: &mut Rng) -> Q {
    Q {
        kind: rng.below(3) as u8,
        author: if rng.chance(1, 2) { Some(rng.below(3)) } else { None },
        kf: match rng.below(5) {
            0 | 1 => Kf::Any,
            2 => Kf::Exact(gen_key(rng)),
            _ => Kf::Prefix(gen_key(rng)),
        },
        limit: if rng.chance(1, 3) { Some(rng.below(5) as u64) } else { None },
        offset: if rng.chance(2, 3) { 0 } else { rng.below(4) as u64 },
        incl: rng.chance(1, 2),
        desc: rng.chance(1, 2),
    }
}

struct DocSlot {
    id: NamespaceId,
    /// secret of the known documents; documents made by `create` keep theirs inside the node
    secret: Option<iroh_docs::NamespaceSecret>,
    handles: Vec<Doc>,
    /// handles the node holds according to the acknowledged requests (C14's counting rule)
    count: usize,
    syncing: bool,
}

impl ApiNode {
    async fn run_case(&self, ops: &[Op]) -> anyhow::Result<Vec<Line>> {
        let keys = &self.keys;
        let node = spawn_node().await?;
        let api = &node.api;
        let peers = undialable_peers();
        // authors: the three known ones, then the node's default author, then created ones
        let default_id = api.author_default().await?;
        let default_author = api.author_export(default_id).await?.ok_or_else(|| anyhow::anyhow!("default author not exportable"))?;
        let mut authors: Vec<Author> = keys.authors.iter().take(3).cloned().collect();
        authors.push(default_author.clone());
        let mut lines = vec![Line::model(format!("nnew 1 {} {}", hex(default_id.as_bytes()), hex(&default_author.to_bytes())), "ok")];
        let mut slots: Vec<DocSlot> = keys
            .namespaces
            .iter()
            .take(3)
            .map(|s| DocSlot { id: s.id(), secret: Some(s.clone()), handles: vec![], count: 0, syncing: false })
            .collect();
        let mut subs: Vec<Sub> = vec![];
        let mut clock = T0;
        // the clock of writes may jump back; registration times never do (C17's hypothesis)
        let mut last_reg = T0;
        let mut unexpected: Vec<String> = vec![];
        // the hashes the protection callback reported last (the cases end with such a request)
        let mut last_hashes: Vec<iroh_blobs::Hash> = vec![];

        macro_rules! pick_doc {
            ($n:expr, $h:expr) => {{
                let n = *$n;
                if n >= slots.len() || slots[n].handles.is_empty() {
                    continue;
                }
                let idx = *$h % slots[n].handles.len();
                (n, slots[n].handles[idx].clone())
            }};
        }
        // a document lost its last handle: the replica and the senders it held are gone
        fn closed_completely(subs: &mut [Sub], n: usize) {
            for s in subs.iter_mut().filter(|s| s.n == n) {
                s.alive = false;
            }
        }

        for op in ops {
            match op {
                Op::Create => {
                    if slots.len() >= 5 {
                        continue;
                    }
                    match api.create().await {
                        Ok(doc) => {
                            let id = doc.id();
                            lines.push(Line::model(format!("node 1 create {} -", hex(id.as_bytes())), "ok"));
                            lines.push(Line::oracle(format!("nhist 1 imported {} 1", hex(id.as_bytes())), "ok"));
                            slots.push(DocSlot { id, secret: None, handles: vec![doc], count: 1, syncing: false });
                        }
                        Err(e) => lines.push(Line::oracle("expect ok", format!("create failed: {}", err_kind(&e)))),
                    }
                }
                Op::Import { n, write } => {
                    if *n >= slots.len() {
                        continue;
                    }
                    let Some(secret) = slots[*n].secret.clone() else { continue };
                    let cap = if *write { Capability::Write(secret) } else { Capability::Read(slots[*n].id) };
                    let (kind, raw) = cap.raw();
                    let out = match api.import_namespace(cap).await {
                        Ok(doc) => {
                            slots[*n].handles.push(doc);
                            slots[*n].count += 1;
                            "ok".to_string()
                        }
                        Err(e) => err_kind(&e),
                    };
                    lines.push(Line::model(format!("node 1 import {} {} {}", hex(slots[*n].id.as_bytes()), kind, hex(&raw)), out.clone()));
                    if out == "ok" {
                        lines.push(Line::oracle(format!("nhist 1 imported {} {}", hex(slots[*n].id.as_bytes()), kind), "ok"));
                    }
                }
                Op::Open { n } => {
                    if *n >= slots.len() {
                        continue;
                    }
                    let out = match api.open(slots[*n].id).await {
                        Ok(Some(doc)) => {
                            slots[*n].handles.push(doc);
                            slots[*n].count += 1;
                            "ok".to_string()
                        }
                        Ok(None) => "none".into(),
                        Err(e) => err_kind(&e),
                    };
                    lines.push(Line::model(format!("node 1 open {}", hex(slots[*n].id.as_bytes())), out));
                }
                Op::Close { n, h } => {
                    if *n >= slots.len() || slots[*n].handles.is_empty() {
                        continue;
                    }
                    let idx = *h % slots[*n].handles.len();
                    let doc = slots[*n].handles.remove(idx);
                    let out = match doc.close().await { Ok(()) => "ok".to_string(), Err(e) => err_kind(&e) };
                    if slots[*n].count > 0 {
                        slots[*n].count -= 1;
                        if slots[*n].count == 0 {
                            closed_completely(&mut subs, *n);
                        }
                    }
                    lines.push(Line::model(format!("node 1 close {}", hex(slots[*n].id.as_bytes())), out));
                }
                Op::Status { n, h } => {
                    let (n, doc) = pick_doc!(n, h);
                    let out = match doc.status().await {
                        Ok(s) => format!("state {} {} {}", s.sync as u8, s.subscribers, s.handles),
                        Err(e) => err_kind(&e),
                    };
                    lines.push(Line::model(format!("node 1 status {}", hex(slots[n].id.as_bytes())), out.clone()));
                    // C14: the handles are the acknowledged opens minus the releases
                    if out.starts_with("state") {
                        lines.push(Line::oracle(format!("expect handles={}", slots[n].count), format!("handles={}", out.rsplit(' ').next().unwrap_or(""))));
                    } else if out == "err:not-open" {
                        lines.push(Line::oracle("expect handles=0", format!("handles={}", slots[n].count)));
                    }
                }
                Op::Drop { n } => {
                    if *n >= slots.len() {
                        continue;
                    }
                    let out = match api.drop_doc(slots[*n].id).await { Ok(()) => "ok".to_string(), Err(e) => err_kind(&e) };
                    lines.push(Line::model(format!("node 1 drop {}", hex(slots[*n].id.as_bytes())), out.clone()));
                    // `leave` releases the live actor's handle, the removal itself one more
                    if slots[*n].syncing {
                        slots[*n].syncing = false;
                        slots[*n].count = slots[*n].count.saturating_sub(1);
                    }
                    slots[*n].count = slots[*n].count.saturating_sub(1);
                    // C16: removal is refused exactly while the document is still open
                    lines.push(Line::oracle(
                        format!("expect {}", if slots[*n].count > 0 { "err:not-closed" } else { "ok" }),
                        out.clone(),
                    ));
                    // `drop_doc` leaves the document with `kill_subscribers`: the client's event streams of this
                    // document end, whatever the removal answers
                    closed_completely(&mut subs, *n);
                    for (i, s) in subs.iter_mut().enumerate().filter(|(_, s)| s.n == *n) {
                        let deadline = std::time::Instant::now() + Duration::from_secs(10);
                        while !s.ended && std::time::Instant::now() < deadline {
                            if let Some(ev) = poll_sub(s, Duration::from_millis(200)).await {
                                unexpected.push(format!("sub {i}: {} (while the stream was ending)", show_event(&ev)));
                            }
                        }
                        if !s.ended {
                            unexpected.push(format!("sub {i}: stream still open after drop_doc"));
                        }
                    }
                    if out == "ok" {
                        lines.push(Line::oracle(format!("nhist 1 dropped {}", hex(slots[*n].id.as_bytes())), "ok"));
                        // the client keeps its handles: requests through them now meet a document that
                        // is not there
                    }
                }
                Op::Set { n, h, a, key, c, dt, shape, bytes } => {
                    let (n, doc) = pick_doc!(n, h);
                    let a = *a % authors.len();
                    clock = if *dt == u64::MAX { clock.saturating_sub(3).max(1) } else { clock + dt };
                    iroh_docs::verif::set_clock_micros(Some(clock));
                    let data = format!("content-{c}");
                    let (hash, len) = if *bytes {
                        // `set_bytes`: an empty value is the one half-empty shape it can express
                        if *shape == 0 { content(*c) } else { (iroh_blobs::Hash::EMPTY, 0) }
                    } else {
                        match shape {
                            0 => content(*c),
                            1 => (iroh_blobs::Hash::EMPTY, 5),
                            _ => (content(*c).0, 0),
                        }
                    };
                    let t = tok(&slots[n].id, &authors[a].id(), key, clock, len, &hash);
                    let res = if *bytes {
                        let value: Vec<u8> = if *shape == 0 { data.into_bytes() } else { vec![] };
                        match doc.set_bytes(authors[a].id(), key.clone(), value).await {
                            Ok(h) => {
                                if h != hash {
                                    unexpected.push("set_bytes returned another hash than the content's".into());
                                }
                                Ok(())
                            }
                            Err(e) => Err(e),
                        }
                    } else {
                        doc.set_hash(authors[a].id(), key.clone(), hash, len).await
                    };
                    let out = match res {
                        Ok(()) => "inserted".to_string(),
                        Err(e) => err_kind(&e),
                    };
                    let ev = collect_events(&mut subs, n, out == "inserted", &t, &mut unexpected).await;
                    lines.push(Line::model(format!("node 1 insertq {t}"), format!("{out} events={ev}")));
                    if out == "inserted" {
                        lines.push(Line::oracle(format!("nhist 1 wrote {t}"), "ok"));
                        // C03 / C04: what every other replica would refuse is never authored
                        lines.push(Line::oracle("expect wellformed-local-write", if *shape == 0 { "wellformed-local-write" } else { "half-empty-entry-authored" }));
                    }
                }
                Op::Del { n, h, a, key, dt } => {
                    let (n, doc) = pick_doc!(n, h);
                    let a = *a % authors.len();
                    clock = if *dt == u64::MAX { clock.saturating_sub(3).max(1) } else { clock + dt };
                    iroh_docs::verif::set_clock_micros(Some(clock));
                    let t = tok(&slots[n].id, &authors[a].id(), key, clock, 0, &iroh_blobs::Hash::EMPTY);
                    let out = match doc.del(authors[a].id(), key.clone()).await {
                        Ok(k) => format!("inserted {k}"),
                        Err(e) => err_kind(&e),
                    };
                    let ev = collect_events(&mut subs, n, out.starts_with("inserted"), &t, &mut unexpected).await;
                    lines.push(Line::model(format!("node 1 set {t}"), format!("{out} events={ev}")));
                    if out.starts_with("inserted") {
                        lines.push(Line::oracle(format!("nhist 1 wrote {t}"), "ok"));
                    }
                }
                Op::GetExact { n, h, a, key, incl } => {
                    let (n, doc) = pick_doc!(n, h);
                    let a = *a % authors.len();
                    let out = match doc.get_exact(authors[a].id(), key, *incl).await {
                        Ok(Some(e)) => format!("some {}", entry_tok_plain(&e)),
                        Ok(None) => "none".into(),
                        Err(e) => err_kind(&e),
                    };
                    let args = format!("{} {} {} {}", hex(slots[n].id.as_bytes()), hex(authors[a].id().as_bytes()), hex(key), *incl as u8);
                    lines.push(Line::model(format!("node 1 getexact {args}"), out.clone()));
                    if !out.starts_with("err") {
                        lines.push(Line::oracle(format!("nsexact 1 {args}"), out));
                    }
                }
                Op::GetMany { n, h, q } => {
                    let (n, doc) = pick_doc!(n, h);
                    // the query generator names authors by index: use this node's authors
                    let author = q.author.map(|a| authors[a % authors.len()].id());
                    let query = build_query(q, author);
                    let qtok = {
                        let mut parts: Vec<String> = self.q.query_tok(&Q { author: None, ..q.clone() }).split(' ').map(|s| s.to_string()).collect();
                        if let Some(aid) = author {
                            parts[1] = hex(aid.as_bytes());
                        }
                        parts.join(" ")
                    };
                    let out = match doc.get_many(query).await {
                        Ok(stream) => {
                            let mut stream = Box::pin(stream);
                            let mut toks = vec![];
                            let mut err = None;
                            while let Some(item) = stream.next().await {
                                match item {
                                    Ok(e) => toks.push(entry_tok_plain(&e)),
                                    Err(e) => {
                                        err = Some(err_kind(&e));
                                        break;
                                    }
                                }
                            }
                            err.unwrap_or_else(|| entries_line(&toks))
                        }
                        Err(e) => err_kind(&e),
                    };
                    lines.push(Line::model(format!("node 1 getmany {} {qtok}", hex(slots[n].id.as_bytes())), out.clone()));
                    if out.starts_with("entries") {
                        lines.push(Line::oracle(format!("nsquery 1 {} {qtok}", hex(slots[n].id.as_bytes())), out));
                    }
                }
                Op::SetPolicy { n, h, pol } => {
                    let (n, doc) = pick_doc!(n, h);
                    let out = match doc.set_download_policy(pol.real()).await { Ok(()) => "ok".to_string(), Err(e) => err_kind(&e) };
                    lines.push(Line::model(format!("node 1 setpolicy {} {}", hex(slots[n].id.as_bytes()), pol.tok()), out.clone()));
                    lines.push(Line::oracle(format!("nsknown 1 {}", hex(slots[n].id.as_bytes())), out.clone()));
                    if out == "ok" {
                        lines.push(Line::oracle(format!("nhist 1 policy {} {}", hex(slots[n].id.as_bytes()), pol.tok()), "ok"));
                    }
                }
                Op::GetPolicy { n, h } => {
                    let (n, doc) = pick_doc!(n, h);
                    let out = match doc.get_download_policy().await { Ok(p) => format!("policy {}", policy_tok(&p)), Err(e) => err_kind(&e) };
                    lines.push(Line::model(format!("node 1 getpolicy {}", hex(slots[n].id.as_bytes())), out.clone()));
                    if out.starts_with("policy") {
                        lines.push(Line::oracle(format!("nspolicy 1 {}", hex(slots[n].id.as_bytes())), out));
                    }
                }
                Op::Peers { n, h } => {
                    let (n, doc) = pick_doc!(n, h);
                    let out = match doc.get_sync_peers().await {
                        Ok(None) => "peers none".to_string(),
                        Ok(Some(l)) => format!("peers {}", l.iter().map(|p| hex(p)).collect::<Vec<_>>().join(",")),
                        Err(e) => err_kind(&e),
                    };
                    lines.push(Line::model(format!("node 1 peers {}", hex(slots[n].id.as_bytes())), out.clone()));
                    if out.starts_with("peers") {
                        lines.push(Line::oracle(format!("nspeers 1 {}", hex(slots[n].id.as_bytes())), out));
                    }
                }
                Op::RegPeer { n, p } => {
                    if *n >= slots.len() {
                        continue;
                    }
                    // registration times strictly increase (the equal-time case is outside C17's hypothesis)
                    clock = clock.max(last_reg) + 1;
                    last_reg = clock;
                    iroh_docs::verif::set_clock_micros(Some(clock));
                    let peer = peers[*p % peers.len()];
                    let out = match node.sync.register_useful_peer(slots[*n].id, peer).await { Ok(()) => "ok".to_string(), Err(e) => err_kind(&e) };
                    lines.push(Line::model(format!("node 1 regpeer {} {} {}", hex(slots[*n].id.as_bytes()), clock * 1000, hex(&peer)), out.clone()));
                    lines.push(Line::oracle(format!("nsknown 1 {}", hex(slots[*n].id.as_bytes())), out.clone()));
                    if out == "ok" {
                        lines.push(Line::oracle(format!("nhist 1 peer {} {}", hex(slots[*n].id.as_bytes()), hex(&peer)), "ok"));
                    }
                }
                Op::StartSync { n, h } => {
                    let (n, doc) = pick_doc!(n, h);
                    let out = match doc.start_sync(vec![]).await { Ok(()) => "ok".to_string(), Err(e) => err_kind(&e) };
                    if out == "ok" && !slots[n].syncing {
                        slots[n].syncing = true;
                        slots[n].count += 1;
                    }
                    lines.push(Line::model(format!("node 1 startsync {}", hex(slots[n].id.as_bytes())), out));
                }
                Op::Leave { n, h } => {
                    let (n, doc) = pick_doc!(n, h);
                    let out = match doc.leave().await { Ok(()) => "ok".to_string(), Err(e) => err_kind(&e) };
                    if slots[n].syncing {
                        slots[n].syncing = false;
                        if out == "ok" {
                            slots[n].count = slots[n].count.saturating_sub(1);
                            if slots[n].count == 0 {
                                closed_completely(&mut subs, n);
                            }
                        }
                    }
                    lines.push(Line::model(format!("node 1 leave {}", hex(slots[n].id.as_bytes())), out));
                }
                Op::Share { n, h, write } => {
                    let (n, doc) = pick_doc!(n, h);
                    let mode = if *write { ShareMode::Write } else { ShareMode::Read };
                    let out = match doc.share(mode, AddrInfoOptions::Id).await {
                        Ok(t) => {
                            let (kind, raw) = t.capability.raw();
                            if t.capability.id() != slots[n].id {
                                unexpected.push("ticket for another document".into());
                            }
                            // the secret of a document made by `create` is not known to the model
                            let raw = if *write && slots[n].secret.is_none() { "-".to_string() } else { hex(&raw) };
                            if !slots[n].syncing {
                                slots[n].syncing = true;
                                slots[n].count += 1;
                            }
                            format!("ticket {kind} {raw}")
                        }
                        Err(e) => err_kind(&e),
                    };
                    lines.push(Line::model(format!("node 1 share {} {}", hex(slots[n].id.as_bytes()), *write as u8), out));
                }
                Op::Subscribe { n, h } => {
                    let (n, doc) = pick_doc!(n, h);
                    if subs.len() >= 6 {
                        continue;
                    }
                    let out = match doc.subscribe().await {
                        Ok(s) => {
                            let id = subs.len();
                            // a refusal is the first item of the stream; the handler has sent it by the time a
                            // later request of the same client is answered
                            let mut s: Events = Box::pin(s);
                            let _ = api.author_default().await;
                            match tokio::time::timeout(Duration::from_millis(25), s.next()).await {
                                Ok(Some(Err(e))) => err_kind(&e),
                                Ok(None) => "err:stream-ended".into(),
                                Ok(Some(Ok(ev))) => {
                                    unexpected.push(format!("event right after subscribing: {ev}"));
                                    subs.push(Sub { n, stream: s, alive: slots[n].count > 0, ended: false });
                                    format!("subscribed {id}")
                                }
                                Err(_) => {
                                    subs.push(Sub { n, stream: s, alive: slots[n].count > 0, ended: false });
                                    format!("subscribed {id}")
                                }
                            }
                        }
                        Err(e) => err_kind(&e),
                    };
                    lines.push(Line::model(format!("node 1 subscribe {}", hex(slots[n].id.as_bytes())), out));
                }
                Op::AuthorCreate => {
                    if authors.len() >= 6 {
                        continue;
                    }
                    match api.author_create().await {
                        Ok(id) => match api.author_export(id).await? {
                            Some(a) => {
                                lines.push(Line::model(format!("node 1 aimport {} {}", hex(id.as_bytes()), hex(&a.to_bytes())), format!("id {}", hex(id.as_bytes()))));
                                authors.push(a);
                            }
                            None => lines.push(Line::oracle("expect ok", "created author cannot be exported")),
                        },
                        Err(e) => lines.push(Line::oracle("expect ok", format!("author_create failed: {}", err_kind(&e)))),
                    }
                }
                Op::AuthorImport { a } => {
                    let a = *a % authors.len();
                    let out = match api.author_import(authors[a].clone()).await { Ok(()) => format!("id {}", hex(authors[a].id().as_bytes())), Err(e) => err_kind(&e) };
                    lines.push(Line::model(format!("node 1 aimport {} {}", hex(authors[a].id().as_bytes()), hex(&authors[a].to_bytes())), out));
                }
                Op::AuthorExport { a } => {
                    let a = *a % authors.len();
                    let out = match api.author_export(authors[a].id()).await {
                        Ok(Some(x)) => format!("author {}", hex(&x.to_bytes())),
                        Ok(None) => "author none".into(),
                        Err(e) => err_kind(&e),
                    };
                    lines.push(Line::model(format!("node 1 aexport {}", hex(authors[a].id().as_bytes())), out));
                }
                Op::AuthorDelete { a } => {
                    let a = *a % authors.len();
                    let out = match api.author_delete(authors[a].id()).await { Ok(()) => "ok".to_string(), Err(e) => err_kind(&e) };
                    lines.push(Line::model(format!("node 1 adelete {}", hex(authors[a].id().as_bytes())), out));
                }
                Op::AuthorList => {
                    let out = match api.author_list().await {
                        Ok(s) => {
                            let mut s = Box::pin(s);
                            let mut ids = vec![];
                            while let Some(x) = s.next().await {
                                ids.push(x?);
                            }
                            ids.sort_by_key(|i| *i.as_bytes());
                            format!("authors {}", ids.iter().map(|i| hex(i.as_bytes())).collect::<Vec<_>>().join(","))
                        }
                        Err(e) => err_kind(&e),
                    };
                    lines.push(Line::model("node 1 alist", out));
                }
                Op::AuthorDefault => {
                    let out = match api.author_default().await { Ok(id) => format!("id {}", hex(id.as_bytes())), Err(e) => err_kind(&e) };
                    lines.push(Line::model("node 1 adefault", out));
                }
                Op::AuthorSetDefault { a } => {
                    let a = *a % authors.len();
                    let out = match api.author_set_default(authors[a].id()).await { Ok(()) => "ok".to_string(), Err(e) => err_kind(&e) };
                    lines.push(Line::model(format!("node 1 asetdefault {}", hex(authors[a].id().as_bytes())), out));
                }
                Op::Hashes => {
                    let mut live: HashSet<iroh_blobs::Hash> = HashSet::new();
                    let outcome = (node.protect)(&mut live).await;
                    last_hashes = live.iter().cloned().collect();
                    let mut hs: Vec<String> = live.iter().map(|h| hex(h.as_bytes())).collect();
                    hs.sort();
                    let out = match outcome {
                        iroh_blobs::store::ProtectOutcome::Continue => format!("hashes {}", hs.join(",")),
                        _ => "err:abort".to_string(),
                    };
                    lines.push(Line::model("node 1 hashes", out.clone()));
                    lines.push(Line::oracle("nshashes 1", out));
                }
                Op::List => {}
            }
            // after every request: the document list (table order = id order)
            let mut l = vec![];
            let mut s = api.list().await?;
            while let Some(item) = s.next().await {
                l.push(item?);
            }
            l.sort_by_key(|(id, _)| *id.as_bytes());
            let shown = format!(
                "namespaces {}",
                l.iter().map(|(id, k)| format!("{}={}", hex(id.as_bytes()), match k { CapabilityKind::Write => 1, CapabilityKind::Read => 2 })).collect::<Vec<_>>().join(";")
            );
            lines.push(Line::model("node 1 list", shown.clone()));
            // C16 / C07: the documents imported or created and not removed since, writable iff a write
            // capability was imported
            lines.push(Line::oracle("nslist 1", shown));
            // events nobody asked for
            for (i, s) in subs.iter_mut().enumerate() {
                if let Some(ev) = poll_sub(s, Duration::from_millis(0)).await {
                    unexpected.push(format!("sub {i}: {}", show_event(&ev)));
                }
            }
        }
        // a last look at every subscription after a short grace period
        tokio::time::sleep(Duration::from_millis(30)).await;
        for (i, s) in subs.iter_mut().enumerate() {
            if let Some(ev) = poll_sub(s, Duration::from_millis(0)).await {
                unexpected.push(format!("sub {i}: {}", show_event(&ev)));
            }
        }
        lines.push(Line::oracle("expect no-unexpected-events", if unexpected.is_empty() { "no-unexpected-events".to_string() } else { format!("unexpected: {}", unexpected.join(" | ").replace(' ', "_")) }));
        drop(subs);
        iroh::protocol::ProtocolHandler::shutdown(&node.docs).await;
        // C16: once the node is shut down the protected hashes cannot be read any more; the garbage
        // collector then has to be told to abort, never that an incomplete set is complete
        let held: HashSet<iroh_blobs::Hash> = {
            let mut live = HashSet::new();
            // (what the callback last reported while the node was up is in the lines above; here only the outcome counts)
            let outcome = tokio::time::timeout(Duration::from_secs(20), (node.protect)(&mut live)).await;
            let shown = match outcome {
                Ok(iroh_blobs::store::ProtectOutcome::Continue) => if last_hashes.iter().all(|h| live.contains(h)) { "aborts-or-covers".to_string() } else { format!("continues-with-{}-of-{}-held-hashes", live.len(), last_hashes.len()) },
                Ok(_) => "aborts-or-covers".to_string(),
                Err(_) => "protection-callback-never-answered".to_string(),
            };
            lines.push(Line::oracle("expect aborts-or-covers", shown));
            live
        };
        drop(held);
        node.endpoint.close().await;
        Ok(lines)
    }
}

fn show_event(ev: &anyhow::Result<LiveEvent>) -> String {
    match ev {
        Ok(LiveEvent::InsertLocal { entry }) => format!("local:{}", entry_tok_plain(entry)),
        Ok(LiveEvent::InsertRemote { entry, .. }) => format!("remote:{}", entry_tok_plain(entry)),
        Ok(other) => format!("other:{other}"),
        Err(e) => format!("error:{}", err_kind(e)),
    }
}

/// After a write to document `n`: every subscription that is alive by the history of acknowledged
/// requests is waited for (an applied write owes it exactly one event carrying that entry); the
/// others are only looked at. Returns the ids of the subscriptions that delivered the event.
async fn collect_events(subs: &mut [Sub], n: usize, applied: bool, tok: &str, unexpected: &mut Vec<String>) -> String {
    let mut got = vec![];
    for (i, s) in subs.iter_mut().enumerate() {
        if s.n != n {
            continue;
        }
        let wait = if applied && s.alive { Duration::from_secs(20) } else { Duration::from_millis(0) };
        match poll_sub(s, wait).await {
            Some(ev) => {
                let shown = show_event(&ev);
                if applied && shown == format!("local:{tok}") {
                    got.push(i.to_string());
                    // exactly one: nothing else may be queued behind it
                    if let Some(ev2) = poll_sub(s, Duration::from_millis(0)).await {
                        unexpected.push(format!("sub {i}: second event {}", show_event(&ev2)));
                    }
                } else {
                    unexpected.push(format!("sub {i}: {shown} (write {tok} applied={applied})"));
                }
            }
            None => {
                if applied && s.alive && s.ended {
                    unexpected.push(format!("sub {i}: stream ended"));
                }
            }
        }
    }
    got.join(",")
}

/// the next event of a subscription within `wait`, if any; a stream that ended is not polled again
async fn poll_sub(s: &mut Sub, wait: Duration) -> Option<anyhow::Result<LiveEvent>> {
    if s.ended {
        return None;
    }
    match tokio::time::timeout(wait, s.stream.next()).await {
        Ok(Some(ev)) => Some(ev),
        Ok(None) => {
            s.ended = true;
            None
        }
        Err(_) => None,
    }
}

fn build_query(q: &Q, author: Option<AuthorId>) -> Query {
    use iroh_docs::store::{SortBy, SortDirection};
    let dir = if q.desc { SortDirection::Desc } else { SortDirection::Asc };
    macro_rules! common {
        ($b:expr) => {{
            let mut b = $b;
            if let Some(aid) = author {
                b = b.author(aid);
            }
            match &q.kf {
                Kf::Any => {}
                Kf::Exact(k) => b = b.key_exact(k),
                Kf::Prefix(k) => b = b.key_prefix(k),
            }
            if let Some(l) = q.limit {
                b = b.limit(l);
            }
            b = b.offset(q.offset);
            if q.incl {
                b = b.include_empty();
            }
            b
        }};
    }
    match q.kind {
        0 => common!(Query::all()).sort_by(SortBy::AuthorKey, dir).build(),
        1 => common!(Query::all()).sort_by(SortBy::KeyAuthor, dir).build(),
        _ => common!(Query::single_latest_per_key()).sort_direction(dir).build(),
    }
}
