//! Shared machinery: PRNG, canonical printing, the model driver, case comparison, shrinking,
//! reports.

use std::{
    collections::BTreeMap,
    io::Write,
    path::{Path, PathBuf},
    process::{Command, Stdio},
};

use iroh_docs::{Author, NamespaceSecret, SignedEntry};
use serde::{Deserialize, Serialize};

// ------------------------------------------------------------------------------------------
// PRNG: every random choice derives from one SplitMix64 state so that a case replays exactly.

#[derive(Clone, Debug)]
pub struct Rng(pub u64);

impl Rng {
    pub fn new(seed: u64) -> Self {
        Rng(seed ^ 0x9E37_79B9_7F4A_7C15)
    }
    pub fn next_u64(&mut self) -> u64 {
        self.0 = self.0.wrapping_add(0x9E37_79B9_7F4A_7C15);
        let mut z = self.0;
        z = (z ^ (z >> 30)).wrapping_mul(0xBF58_476D_1CE4_E5B9);
        z = (z ^ (z >> 27)).wrapping_mul(0x94D0_49BB_1331_11EB);
        z ^ (z >> 31)
    }
    pub fn below(&mut self, n: usize) -> usize {
        if n == 0 {
            0
        } else {
            (self.next_u64() % n as u64) as usize
        }
    }
    pub fn range(&mut self, lo: usize, hi_incl: usize) -> usize {
        lo + self.below(hi_incl - lo + 1)
    }
    pub fn chance(&mut self, num: usize, den: usize) -> bool {
        self.below(den) < num
    }
    pub fn pick<'a, T>(&mut self, xs: &'a [T]) -> &'a T {
        &xs[self.below(xs.len())]
    }
    pub fn fork(&mut self) -> Rng {
        Rng(self.next_u64())
    }
    pub fn shuffle<T>(&mut self, xs: &mut [T]) {
        for i in (1..xs.len()).rev() {
            let j = self.below(i + 1);
            xs.swap(i, j);
        }
    }
}

// ------------------------------------------------------------------------------------------
// canonical printing

pub fn hex(b: &[u8]) -> String {
    if b.is_empty() {
        "-".to_string()
    } else {
        let mut s = String::with_capacity(b.len() * 2);
        for x in b {
            s.push_str(&format!("{x:02x}"));
        }
        s
    }
}

/// entry token understood by the model driver:
/// `ns,author,key,ts,len,hash,sig,nsok,auok`
pub fn entry_tok(e: &SignedEntry, sig: u64, nsok: bool, auok: bool) -> String {
    format!(
        "{},{},{},{},{},{},{},{},{}",
        hex(e.entry().namespace().as_bytes()),
        hex(e.entry().author().as_bytes()),
        hex(e.key()),
        e.timestamp(),
        e.content_len(),
        hex(e.content_hash().as_bytes()),
        sig,
        nsok as u8,
        auok as u8
    )
}

/// token for an honestly signed entry
pub fn honest_tok(e: &SignedEntry) -> String {
    entry_tok(e, 0, true, true)
}

pub fn entries_line(toks: &[String]) -> String {
    format!("entries {} {}", toks.len(), toks.join(";"))
}

// ------------------------------------------------------------------------------------------
// deterministic key material

/// A pool of deterministic key pairs, with a few selected for awkward public key bytes.
pub struct Keys {
    pub namespaces: Vec<NamespaceSecret>,
    pub authors: Vec<Author>,
}

fn secret_bytes(kind: u8, i: u32) -> [u8; 32] {
    let mut h = blake3::Hasher::new();
    h.update(b"verif-harness-key");
    h.update(&[kind]);
    h.update(&i.to_be_bytes());
    *h.finalize().as_bytes()
}

impl Keys {
    /// `n_ns` namespaces and `n_au` authors. Among 600 candidates each we prefer ids with edge
    /// bytes: a pair sharing its first byte, ids ending in 0xFF, an id starting with 0xFF or 0x00.
    pub fn new(n_ns: usize, n_au: usize) -> Self {
        let mut ns: Vec<NamespaceSecret> = (0..600)
            .map(|i| NamespaceSecret::from_bytes(&secret_bytes(1, i)))
            .collect();
        let mut au: Vec<Author> = (0..600)
            .map(|i| Author::from_bytes(&secret_bytes(2, i)))
            .collect();
        fn score(id: &[u8; 32], others_first: &BTreeMap<u8, usize>) -> u32 {
            let mut s = 0;
            if id[31] == 0xFF {
                s += 4;
            }
            if id[0] == 0xFF || id[0] == 0 {
                s += 2;
            }
            if others_first.get(&id[0]).copied().unwrap_or(0) > 1 {
                s += 1;
            }
            s
        }
        let mut first = BTreeMap::new();
        for n in &ns {
            *first.entry(n.id().as_bytes()[0]).or_insert(0) += 1;
        }
        ns.sort_by_key(|n| std::cmp::Reverse(score(n.id().as_bytes(), &first)));
        let mut first = BTreeMap::new();
        for a in &au {
            *first.entry(a.id().as_bytes()[0]).or_insert(0) += 1;
        }
        au.sort_by_key(|a| std::cmp::Reverse(score(a.id().as_bytes(), &first)));
        ns.truncate(n_ns);
        au.truncate(n_au);
        Keys {
            namespaces: ns,
            authors: au,
        }
    }
}

// ------------------------------------------------------------------------------------------
// cases

/// One line of a case: the operation given to the model, what the implementation answered,
/// and whether the model's answer is the *model* of the code (`oracle = false`) or the
/// *specification* proved about it (`oracle = true`).
#[derive(Clone, Debug, Serialize, Deserialize)]
pub struct Line {
    pub op: String,
    pub imp: String,
    pub oracle: bool,
}

impl Line {
    pub fn model(op: impl Into<String>, imp: impl Into<String>) -> Self {
        Line {
            op: op.into(),
            imp: imp.into(),
            oracle: false,
        }
    }
    pub fn oracle(op: impl Into<String>, imp: impl Into<String>) -> Self {
        Line {
            op: op.into(),
            imp: imp.into(),
            oracle: true,
        }
    }
}

#[derive(Clone, Debug, Default, Serialize, Deserialize)]
pub struct Mismatch {
    pub line_index: usize,
    pub op: String,
    pub implementation: String,
    pub model: String,
    pub oracle: bool,
}

pub fn driver_path() -> PathBuf {
    if let Ok(p) = std::env::var("VERIF_MODEL_DRIVER") {
        return PathBuf::from(p);
    }
    PathBuf::from("/verif/lean/.lake/build/bin/docsmodel")
}

/// Run the model driver on a batch of operation lines; one output line per input line.
pub fn run_model(ops: &[&str]) -> anyhow::Result<Vec<String>> {
    let mut child = Command::new(driver_path())
        .stdin(Stdio::piped())
        .stdout(Stdio::piped())
        .spawn()
        .map_err(|e| anyhow::anyhow!("cannot start model driver {:?}: {e}", driver_path()))?;
    let mut stdin = child.stdin.take().unwrap();
    let input: String = ops.iter().map(|l| format!("{l}\n")).collect();
    let writer = std::thread::spawn(move || {
        let _ = stdin.write_all(input.as_bytes());
    });
    let out = child.wait_with_output()?;
    writer.join().ok();
    anyhow::ensure!(out.status.success(), "model driver failed: {:?}", out.status);
    let text = String::from_utf8(out.stdout)?;
    let lines: Vec<String> = text.lines().map(|s| s.to_string()).collect();
    anyhow::ensure!(
        lines.len() == ops.len(),
        "model driver answered {} lines for {} operations",
        lines.len(),
        ops.len()
    );
    Ok(lines)
}

/// Compare many cases against the model in one driver invocation (each case starts with `reset`).
pub fn compare_cases(cases: &[Vec<Line>]) -> anyhow::Result<Vec<Vec<Mismatch>>> {
    let mut ops: Vec<&str> = Vec::new();
    for c in cases {
        ops.push("reset");
        for l in c {
            ops.push(&l.op);
        }
    }
    let out = run_model(&ops)?;
    let mut res = Vec::with_capacity(cases.len());
    let mut k = 0;
    for c in cases {
        k += 1; // reset
        let mut mm = Vec::new();
        for (i, l) in c.iter().enumerate() {
            let m = &out[k];
            k += 1;
            if m.trim_end() != l.imp.trim_end() {
                mm.push(Mismatch {
                    line_index: i,
                    op: l.op.clone(),
                    implementation: l.imp.clone(),
                    model: m.clone(),
                    oracle: l.oracle,
                });
            }
        }
        res.push(mm);
    }
    Ok(res)
}

// ------------------------------------------------------------------------------------------
// property runner

/// What a failing case is.
#[derive(Clone, Copy, Debug, PartialEq, Eq, Serialize, Deserialize)]
pub enum FailKind {
    /// the implementation's observable differs from the specification proved in Lean
    ImplViolatesProperty,
    /// the implementation differs from the model of the code, the specification still holds
    ModelImplDisagreement,
    /// the implementation panicked / hung
    ImplCrashed,
}

pub trait Property: Sync {
    type Op: Clone + Serialize + for<'a> Deserialize<'a> + Send + Sync + std::fmt::Debug;
    fn id(&self) -> &'static str;
    /// generate the operations of case number `i`
    fn generate(&self, rng: &mut Rng, i: usize, thorough: bool) -> Vec<Self::Op>;
    /// run the operations on the real crate; returns lines (op for the model, impl observable)
    fn execute(&self, ops: &[Self::Op]) -> anyhow::Result<Vec<Line>>;
    /// classification of a case for the coverage statistics (e.g. branches hit)
    fn features(&self, _ops: &[Self::Op], _lines: &[Line]) -> Vec<String> {
        vec![]
    }
    /// is this case non-trivial (by the rule stated in the evidence)?
    fn nontrivial(&self, ops: &[Self::Op], _lines: &[Line]) -> bool {
        ops.len() >= 2
    }
    /// if the failing case is an instance of a known finding, its id
    fn known_finding(&self, _ops: &[Self::Op], _mm: &[Mismatch]) -> Option<String> {
        None
    }
    /// corpus cases that always run first
    fn corpus(&self) -> Vec<(String, Vec<Self::Op>)> {
        vec![]
    }
    fn rule(&self) -> String;
    /// prefix of generated case names (when two harnesses report under one property)
    fn case_prefix(&self) -> &'static str {
        ""
    }
    /// may cases run on several threads at once? (false when a case needs process-global hooks)
    fn parallel(&self) -> bool {
        true
    }
}

#[derive(Default, Serialize)]
pub struct RunReport {
    pub cases_skipped_for_time: usize,
    pub property_id: String,
    pub evaluations: usize,
    pub distinct_nontrivial: usize,
    pub rule: String,
    pub samples: Vec<serde_json::Value>,
    pub features: BTreeMap<String, usize>,
    pub model_lines_compared: usize,
    pub oracle_lines_compared: usize,
    pub oracle_failures: usize,
    pub model_disagreements: usize,
    pub crashes: usize,
    pub known_findings: Vec<String>,
    pub violations: Vec<ViolationReport>,
    pub corpus_cases: usize,
    pub wall_s: f64,
}

#[derive(Clone, Serialize)]
pub struct ViolationReport {
    pub kind: FailKind,
    pub replay: String,
    pub no_failing_input_found: bool,
}

/// The case each worker thread is executing, for the hang watchdog: (thread, case json, started).
pub static CURRENT_CASES: std::sync::Mutex<Vec<(String, String, std::time::Instant)>> = std::sync::Mutex::new(Vec::new());

/// If a case runs longer than `limit`, the implementation hangs: report it as a violation with the
/// case as the replay and stop (a hung thread cannot be cancelled).
pub fn start_watchdog(property: &'static str, replay_dir: PathBuf, limit: std::time::Duration) {
    std::thread::spawn(move || loop {
        std::thread::sleep(std::time::Duration::from_secs(1));
        let hung = {
            let g = CURRENT_CASES.lock().unwrap();
            g.iter().find(|(_, _, t)| t.elapsed() > limit).map(|(_, ops, _)| ops.clone())
        };
        if let Some(ops) = hung {
            std::fs::create_dir_all(&replay_dir).ok();
            let path = replay_dir.join(format!("{property}-hang.json"));
            let v = format!(
                "{{\"property\":\"{property}\",\"kind\":\"ImplCrashed\",\"note\":\"the case did not finish within {}s (hang)\",\"ops\":{ops}}}",
                limit.as_secs()
            );
            std::fs::write(&path, v).ok();
            println!("VIOLATION property={property} replay={}", path.display());
            std::process::exit(1);
        }
    });
}

fn exec_catch<P: Property>(p: &P, ops: &[P::Op]) -> Result<Vec<Line>, String> {
    let me = format!("{:?}", std::thread::current().id());
    {
        let mut g = CURRENT_CASES.lock().unwrap();
        g.retain(|(t, _, _)| *t != me);
        g.push((me.clone(), serde_json::to_string(ops).unwrap_or_default(), std::time::Instant::now()));
    }
    let r = exec_catch_inner(p, ops);
    CURRENT_CASES.lock().unwrap().retain(|(t, _, _)| *t != me);
    r
}

fn exec_catch_inner<P: Property>(p: &P, ops: &[P::Op]) -> Result<Vec<Line>, String> {
    let r = std::panic::catch_unwind(std::panic::AssertUnwindSafe(|| p.execute(ops)));
    match r {
        Ok(Ok(l)) => Ok(l),
        Ok(Err(e)) => Err(format!("harness error: {e:#}")),
        Err(p) => {
            let msg = if let Some(s) = p.downcast_ref::<&str>() {
                s.to_string()
            } else if let Some(s) = p.downcast_ref::<String>() {
                s.clone()
            } else {
                "panic".to_string()
            };
            Err(format!("panic: {msg}"))
        }
    }
}

/// does this op list still fail (in the same way: oracle failure stays an oracle failure)?
fn still_fails<P: Property>(p: &P, ops: &[P::Op], want_oracle: bool, want_crash: bool) -> bool {
    match exec_catch(p, ops) {
        Err(_) => want_crash,
        Ok(lines) => {
            if want_crash {
                return false;
            }
            match compare_cases(&[lines]) {
                Ok(mm) => {
                    let mm = &mm[0];
                    if want_oracle {
                        mm.iter().any(|m| m.oracle)
                    } else {
                        !mm.is_empty()
                    }
                }
                Err(_) => false,
            }
        }
    }
}

/// removal of chunks of halving size (whole halves first, single operations last) until no single
/// removal keeps the failure, within a budget of executions
pub fn shrink<P: Property>(p: &P, ops: Vec<P::Op>, want_oracle: bool, want_crash: bool) -> Vec<P::Op> {
    let mut cur = ops;
    let mut budget = 400usize;
    // … and of time: a case of a thousand operations takes seconds per execution
    let started = std::time::Instant::now();
    let limit = std::time::Duration::from_secs(std::env::var("VERIF_SHRINK_SECS").ok().and_then(|s| s.parse().ok()).unwrap_or(40));
    let mut chunk = (cur.len() / 2).max(1);
    loop {
        let mut changed = false;
        let mut i = 0;
        while i < cur.len() && budget > 0 {
            if started.elapsed() > limit {
                budget = 0;
                break;
            }
            let end = (i + chunk).min(cur.len());
            let mut cand = cur.clone();
            cand.drain(i..end);
            budget -= 1;
            if still_fails(p, &cand, want_oracle, want_crash) {
                cur = cand;
                changed = true;
            } else {
                i = end;
            }
        }
        if budget == 0 {
            break;
        }
        if chunk > 1 {
            chunk = (chunk / 2).max(1);
        } else if !changed {
            break;
        }
    }
    cur
}

pub struct RunCfg {
    pub seed: u64,
    pub thorough: bool,
    pub cases: usize,
    pub replay_dir: PathBuf,
    pub threads: usize,
    /// wall-clock budget of the execution phase, seconds
    pub budget_secs: u64,
}

fn write_replay<P: Property>(
    p: &P,
    cfg: &RunCfg,
    name: &str,
    kind: FailKind,
    ops: &[P::Op],
    lines: Option<&[Line]>,
    mm: &[Mismatch],
    note: &str,
) -> String {
    std::fs::create_dir_all(&cfg.replay_dir).ok();
    let path = cfg.replay_dir.join(format!("{}-{}.json", p.id(), name));
    let v = serde_json::json!({
        "property": p.id(),
        "kind": kind,
        "seed": cfg.seed,
        "case": name,
        "ops": ops,
        "mismatches": mm,
        "lines": lines,
        "note": note,
        "replay_cmd": format!("/verif/bin/check {} --replay {}", p.id(), path.display()),
    });
    std::fs::write(&path, serde_json::to_string_pretty(&v).unwrap()).ok();
    path.display().to_string()
}

/// Run corpus + generated cases, compare with the model, classify, shrink, report.
pub fn run_property<P: Property>(p: &P, cfg: &RunCfg) -> anyhow::Result<RunReport> {
    let t0 = std::time::Instant::now();
    let mut report = RunReport {
        property_id: p.id().to_string(),
        rule: p.rule(),
        ..Default::default()
    };
    // 1. build the op lists
    let mut named: Vec<(String, Vec<P::Op>)> = p.corpus().into_iter().map(|(n, o)| (format!("{}{n}", p.case_prefix()), o)).collect();
    report.corpus_cases = named.len();
    let mut master = Rng::new(cfg.seed);
    for i in 0..cfg.cases {
        let mut r = master.fork();
        named.push((format!("{}gen{i}", p.case_prefix()), p.generate(&mut r, i, cfg.thorough)));
    }
    // 2. execute on the implementation, in parallel
    let n = named.len();
    let mut results: Vec<Option<Result<Vec<Line>, String>>> = (0..n).map(|_| None).collect();
    let threads = if p.parallel() { cfg.threads.max(1) } else { 1 };
    let chunk = n.div_ceil(threads).max(1);
    // wall-clock budget for the execution phase: on a healthy tree a run is far below it; a broken
    // implementation that makes many cases wait for their internal timeouts stops being explored
    // once the budget is used up (what was executed is still judged)
    let budget = std::time::Duration::from_secs(cfg.budget_secs);
    std::thread::scope(|s| {
        for (ops_chunk, res_chunk) in named.chunks(chunk).zip(results.chunks_mut(chunk)) {
            s.spawn(move || {
                for ((name, ops), slot) in ops_chunk.iter().zip(res_chunk.iter_mut()) {
                    if t0.elapsed() > budget {
                        break;
                    }
                    if std::env::var("VERIF_TRACE").is_ok() {
                        eprintln!("case {name}: {}", serde_json::to_string(ops).unwrap_or_default());
                    }
                    *slot = Some(exec_catch(p, ops));
                }
            });
        }
    });
    // cases not executed for lack of time are dropped (their number goes into the report)
    let mut kept_named = Vec::new();
    let mut kept_results = Vec::new();
    for (nm, r) in named.into_iter().zip(results.into_iter()) {
        match r {
            Some(r) => {
                kept_named.push(nm);
                kept_results.push(Some(r));
            }
            None => report.cases_skipped_for_time += 1,
        }
    }
    let named = kept_named;
    let results = kept_results;
    // 3. compare with the model
    let mut ok_idx = Vec::new();
    let mut ok_lines = Vec::new();
    let mut failing: Vec<(usize, FailKind, Vec<Mismatch>, Option<Vec<Line>>, String)> = Vec::new();
    for (i, r) in results.into_iter().enumerate() {
        match r.unwrap() {
            Ok(lines) => {
                ok_idx.push(i);
                ok_lines.push(lines);
            }
            Err(msg) => failing.push((i, FailKind::ImplCrashed, vec![], None, msg)),
        }
    }
    let mms = compare_cases(&ok_lines)?;
    let mut distinct = std::collections::BTreeSet::new();
    for ((&i, lines), mm) in ok_idx.iter().zip(ok_lines.iter()).zip(mms.into_iter()) {
        let (_, ops) = &named[i];
        report.evaluations += 1;
        report.model_lines_compared += lines.iter().filter(|l| !l.oracle).count();
        report.oracle_lines_compared += lines.iter().filter(|l| l.oracle).count();
        for f in p.features(ops, lines) {
            *report.features.entry(f).or_insert(0) += 1;
        }
        if p.nontrivial(ops, lines) {
            let key = blake3::hash(serde_json::to_string(ops).unwrap().as_bytes());
            distinct.insert(*key.as_bytes());
        }
        if report.samples.len() < 3 && ops.len() >= 2 {
            report.samples.push(serde_json::json!({
                "case": named[i].0,
                "ops": ops,
                "lines": lines.iter().take(12).collect::<Vec<_>>(),
            }));
        }
        if !mm.is_empty() {
            let kind = if mm.iter().any(|m| m.oracle) {
                FailKind::ImplViolatesProperty
            } else {
                FailKind::ModelImplDisagreement
            };
            failing.push((i, kind, mm, Some(lines.clone()), String::new()));
        }
    }
    report.distinct_nontrivial = distinct.len();
    // 4. classify, shrink, report (at most a handful, oracle failures first)
    failing.sort_by_key(|f| match f.1 {
        FailKind::ImplViolatesProperty => 0,
        FailKind::ImplCrashed => 1,
        FailKind::ModelImplDisagreement => 2,
    });
    let any_oracle_or_crash = failing
        .iter()
        .any(|f| f.1 != FailKind::ModelImplDisagreement);
    let mut reported = 0;
    for (i, kind, mm, lines, msg) in failing {
        let (name, ops) = &named[i];
        match kind {
            FailKind::ImplViolatesProperty => report.oracle_failures += 1,
            FailKind::ModelImplDisagreement => report.model_disagreements += 1,
            FailKind::ImplCrashed => report.crashes += 1,
        }
        if let Some(kf) = p.known_finding(ops, &mm) {
            if !report.known_findings.contains(&kf) {
                report.known_findings.push(kf);
            }
            continue;
        }
        if reported >= 5 {
            continue;
        }
        // a model disagreement is reported on its own only if the search found no failing input
        if kind == FailKind::ModelImplDisagreement && any_oracle_or_crash {
            continue;
        }
        reported += 1;
        let small = shrink(
            p,
            ops.clone(),
            kind == FailKind::ImplViolatesProperty,
            kind == FailKind::ImplCrashed,
        );
        let (lines2, mm2) = match exec_catch(p, &small) {
            Ok(l) => {
                let mm2 = compare_cases(&[l.clone()])?.remove(0);
                (Some(l), mm2)
            }
            Err(_) => (lines, mm),
        };
        let note = match kind {
            FailKind::ImplViolatesProperty => {
                "the implementation's observable differs from the Lean specification (oracle line)"
                    .to_string()
            }
            FailKind::ModelImplDisagreement => format!(
                "correspondence `{}` model-vs-implementation no longer checks; no input on which the specification itself fails was found",
                p.id()
            ),
            FailKind::ImplCrashed => format!("implementation crashed: {msg}"),
        };
        let path = write_replay(p, cfg, name, kind, &small, lines2.as_deref(), &mm2, &note);
        report.violations.push(ViolationReport {
            kind,
            replay: path,
            no_failing_input_found: kind == FailKind::ModelImplDisagreement,
        });
    }
    report.wall_s = t0.elapsed().as_secs_f64();
    Ok(report)
}

/// two harnesses reporting under one property: add up
pub fn merge_reports(mut a: RunReport, b: RunReport, tag: &str) -> RunReport {
    a.cases_skipped_for_time += b.cases_skipped_for_time;
    a.evaluations += b.evaluations;
    a.distinct_nontrivial += b.distinct_nontrivial;
    a.rule = format!("{} || {} PATH: {}", a.rule, tag.to_uppercase(), b.rule);
    for (k, v) in b.features {
        *a.features.entry(format!("{tag}:{k}")).or_insert(0) += v;
    }
    a.samples.extend(b.samples.into_iter().take(1));
    a.model_lines_compared += b.model_lines_compared;
    a.oracle_lines_compared += b.oracle_lines_compared;
    a.oracle_failures += b.oracle_failures;
    a.model_disagreements += b.model_disagreements;
    a.crashes += b.crashes;
    a.known_findings.extend(b.known_findings);
    a.violations.extend(b.violations);
    a.corpus_cases += b.corpus_cases;
    a.wall_s += b.wall_s;
    a
}

/// Replay a stored case file: run its ops again on the implementation and the model.
pub fn replay_property<P: Property>(p: &P, path: &Path) -> anyhow::Result<bool> {
    let v: serde_json::Value = serde_json::from_str(&std::fs::read_to_string(path)?)?;
    let ops: Vec<P::Op> = serde_json::from_value(v["ops"].clone())?;
    match exec_catch(p, &ops) {
        Err(msg) => {
            println!("replay: implementation crashed: {msg}");
            Ok(false)
        }
        Ok(lines) => {
            let mm = compare_cases(&[lines.clone()])?.remove(0);
            for l in &lines {
                println!("  op   {}\n  impl {}", l.op, l.imp);
            }
            for m in &mm {
                println!(
                    "MISMATCH line {} ({}): op `{}`\n  impl : {}\n  model: {}",
                    m.line_index,
                    if m.oracle { "specification" } else { "model" },
                    m.op,
                    m.implementation,
                    m.model
                );
            }
            Ok(mm.is_empty())
        }
    }
}

pub fn print_and_exit(report: &RunReport, out: Option<&Path>) -> ! {
    if let Some(out) = out {
        std::fs::write(out, serde_json::to_string_pretty(report).unwrap()).ok();
    }
    for k in &report.known_findings {
        println!("KNOWN-FINDING: property={} {}", report.property_id, k);
    }
    for v in &report.violations {
        if v.no_failing_input_found {
            println!(
                "VIOLATION property={} replay={} no-failing-input-found",
                report.property_id, v.replay
            );
        } else {
            println!("VIOLATION property={} replay={}", report.property_id, v.replay);
        }
    }
    println!(
        "harness {}: {} cases ({} distinct non-trivial), {} model lines, {} oracle lines, {} oracle failures, {} model disagreements, {} crashes, {:.1}s",
        report.property_id,
        report.evaluations,
        report.distinct_nontrivial,
        report.model_lines_compared,
        report.oracle_lines_compared,
        report.oracle_failures,
        report.model_disagreements,
        report.crashes,
        report.wall_s
    );
    std::process::exit(if report.violations.is_empty() { 0 } else { 1 })
}
