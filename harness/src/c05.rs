//! C05 — queries return exactly the entries, order and window the query describes.
//!
//! Real `Store::get_many` / `get_exact` against `Tables.query` (model of `QueryIterator`,
//! bounds and both index paths) and `QuerySpec.spec` (filter / sort / window specification).

use iroh_docs::{
    store::{Query, SortBy, SortDirection},
    sync::ContentStatus,
};
use serde::{Deserialize, Serialize};

use crate::{c02::gen_key, common::*, world::*};

#[derive(Clone, Debug, Serialize, Deserialize)]
pub enum Kf {
    Any,
    Exact(Vec<u8>),
    Prefix(Vec<u8>),
}

#[derive(Clone, Debug, Serialize, Deserialize)]
pub struct Q {
    /// 0 = flat author-key, 1 = flat key-author, 2 = latest per key
    pub kind: u8,
    pub author: Option<usize>,
    pub kf: Kf,
    pub limit: Option<u64>,
    pub offset: u64,
    pub incl: bool,
    pub desc: bool,
}

#[derive(Clone, Debug, Serialize, Deserialize)]
pub enum Op {
    Open { file: bool },
    /// remote insert into namespace `n` (0 or 1)
    Put { n: usize, a: usize, key: Vec<u8>, c: Option<usize>, ts: u64 },
    Query { n: usize, q: Q },
    GetExact { n: usize, a: usize, key: Vec<u8>, incl: bool },
}

pub struct C05 {
    pub keys: Keys,
}

impl C05 {
    pub fn new() -> Self {
        // author 3 never writes: a filter for an author without entries
        C05 { keys: Keys::new(2, 4) }
    }
    pub fn build_query(&self, q: &Q) -> Query {
        let dir = if q.desc { SortDirection::Desc } else { SortDirection::Asc };
        macro_rules! common {
            ($b:expr) => {{
                let mut b = $b;
                if let Some(a) = q.author {
                    b = b.author(self.keys.authors[a].id());
                }
                match &q.kf {
                    Kf::Any => {}
                    Kf::Exact(k) => b = b.key_exact(k),
                    Kf::Prefix(k) => b = b.key_prefix(k),
                }
                if let Some(l) = q.limit {
                    b = b.limit(l);
                }
                b = b.offset(q.offset);
                if q.incl {
                    b = b.include_empty();
                }
                b
            }};
        }
        match q.kind {
            0 => common!(Query::all()).sort_by(SortBy::AuthorKey, dir).build(),
            1 => common!(Query::all()).sort_by(SortBy::KeyAuthor, dir).build(),
            _ => common!(Query::single_latest_per_key()).sort_direction(dir).build(),
        }
    }
    pub fn query_tok(&self, q: &Q) -> String {
        format!(
            "{} {} {} {} {} {} {}",
            ["flat-ak", "flat-ka", "latest"][q.kind.min(2) as usize],
            q.author.map(|a| hex(self.keys.authors[a].id().as_bytes())).unwrap_or("*".into()),
            match &q.kf {
                Kf::Any => "any".to_string(),
                Kf::Exact(k) => format!("exact:{}", hex(k)),
                Kf::Prefix(k) => format!("pre:{}", hex(k)),
            },
            q.limit.map(|l| l.to_string()).unwrap_or("-".into()),
            q.offset,
            q.incl as u8,
            q.desc as u8
        )
    }
    fn gen_q(&self, rng: &mut Rng) -> Q {
        Q {
            kind: rng.below(3) as u8,
            author: if rng.chance(1, 2) { Some(rng.below(4)) } else { None },
            kf: match rng.below(5) {
                0 | 1 => Kf::Any,
                2 => Kf::Exact(gen_key(rng)),
                _ => Kf::Prefix(gen_key(rng)),
            },
            // the far ends of the 64-bit domain too: "no limit" written as u64::MAX, offsets beyond any table
            limit: if rng.chance(1, 10) { Some(*rng.pick(&[u64::MAX, u64::MAX - 1, 1 << 63, (1 << 32) + 1])) } else if rng.chance(1, 2) { Some(rng.below(5) as u64) } else { None },
            offset: if rng.chance(1, 14) { *rng.pick(&[u64::MAX, u64::MAX - 1, 1 << 63, 1 << 32]) } else if rng.chance(1, 2) { 0 } else { rng.below(5) as u64 },
            incl: rng.chance(1, 2),
            desc: rng.chance(1, 2),
        }
    }
}

impl Property for C05 {
    type Op = Op;
    fn id(&self) -> &'static str {
        "C05"
    }
    fn rule(&self) -> String {
        "a state of 0-14 remote inserts (2 documents, 3 writing authors + 1 silent, keys from {00,01,61,62,FE,FF}^0..3, 4 timestamps, deletion markers that prune and leave stale index rows) followed by 6-16 queries drawn from the full product kind x author filter x key filter(any/exact/prefix) x limit(none,0..4, 2^32+1, 2^63, 2^64-2, 2^64-1) x offset(0..4, 2^32, 2^63, 2^64-2, 2^64-1) x include-empty x direction, plus point lookups; non-trivial = some query returned at least one entry and the state has >= 3 entries; distinct = distinct operation lists".into()
    }
    fn corpus(&self) -> Vec<(String, Vec<Op>)> {
        let p = |a: usize, k: &[u8], c: Option<usize>, ts: u64| Op::Put { n: 0, a, key: k.to_vec(), c, ts };
        let q = |kind: u8, author: Option<usize>, kf: Kf| Op::Query {
            n: 0,
            q: Q { kind, author, kf, limit: None, offset: 0, incl: true, desc: false },
        };
        vec![
            // F2: prefix [1,255] must not match key [2], on both index paths
            ("f2-prefix-ff".into(), vec![
                p(0, &[2], Some(0), 5), p(0, &[1, 255, 3], Some(1), 5), p(1, &[2], Some(0), 5),
                q(0, Some(0), Kf::Prefix(vec![1, 255])), q(1, None, Kf::Prefix(vec![1, 255])),
                q(2, None, Kf::Prefix(vec![1, 255])), q(0, None, Kf::Prefix(vec![1, 255])),
            ]),
            // F13: latest-per-key with an author filter: the winner among all authors is filtered
            ("f13-latest-author-after-grouping".into(), vec![
                p(0, b"k", Some(0), 5), p(1, b"k", Some(1), 10), p(0, b"j", Some(0), 10), p(1, b"j", Some(1), 5),
                q(2, Some(0), Kf::Any), q(2, Some(1), Kf::Any), q(2, None, Kf::Any),
            ]),
            // stale index rows after a prefix deletion
            ("stale-index-rows".into(), vec![
                p(0, b"ab", Some(0), 5), p(0, b"ac", Some(1), 5), p(1, b"ab", Some(1), 5), p(0, b"a", None, 9),
                q(1, None, Kf::Any), q(2, None, Kf::Any), q(1, None, Kf::Prefix(b"a".to_vec())),
            ]),
        ]
    }
    fn generate(&self, rng: &mut Rng, _i: usize, thorough: bool) -> Vec<Op> {
        let mut ops = vec![Op::Open { file: rng.chance(1, 5) }];
        let n = rng.range(0, if thorough { 24 } else { 14 });
        for _ in 0..n {
            ops.push(Op::Put {
                n: if rng.chance(1, 6) { 1 } else { 0 },
                a: rng.below(3),
                key: gen_key(rng),
                c: if rng.chance(1, 4) { None } else { Some(rng.below(3)) },
                ts: *rng.pick(&crate::c02::TIMES),
            });
        }
        for _ in 0..rng.range(6, 16) {
            if rng.chance(1, 6) {
                ops.push(Op::GetExact { n: rng.below(2), a: rng.below(4), key: gen_key(rng), incl: rng.chance(1, 2) });
            } else {
                ops.push(Op::Query { n: if rng.chance(1, 8) { 1 } else { 0 }, q: self.gen_q(rng) });
            }
        }
        if rng.chance(1, 12) {
            // long keys: every key and every key filter behind a common 255-byte prefix
            use crate::c02::long_key;
            for o in ops.iter_mut() {
                match o {
                    Op::Put { key, .. } | Op::GetExact { key, .. } => *key = long_key(key),
                    Op::Query { q, .. } => match &mut q.kf {
                        Kf::Exact(k) | Kf::Prefix(k) => *k = long_key(k),
                        Kf::Any => {}
                    },
                    _ => {}
                }
            }
        }
        ops
    }
    fn execute(&self, ops: &[Op]) -> anyhow::Result<Vec<Line>> {
        let file = matches!(ops.first(), Some(Op::Open { file: true }));
        let mut rs = RealStore::new(file)?;
        let rt = rt();
        set_clock(NOW);
        let mut lines = vec![Line::model("tnew 1", "ok")];
        for ns in &self.keys.namespaces {
            rs.store.new_replica(ns.clone())?;
            rs.store.close_replica(ns.id());
            lines.push(Line::model(
                format!("tns 1 {} 1 {}", hex(ns.id().as_bytes()), hex(&ns.to_bytes())),
                "inserted",
            ));
        }
        for op in ops {
            match op {
                Op::Open { .. } => {}
                Op::Put { n, a, key, c, ts } => {
                    let ns = &self.keys.namespaces[*n];
                    let e = make_entry(ns, &self.keys.authors[*a], key, *c, *ts);
                    let mut r = rs.store.open_replica(&ns.id())?;
                    let res = rt.block_on(r.insert_remote_entry(e.clone(), PEER, ContentStatus::Missing));
                    drop(r);
                    rs.store.close_replica(ns.id());
                    lines.push(Line::model(format!("tput 1 {}", honest_tok(&e)), insert_result(res)));
                }
                Op::Query { n, q } => {
                    let nsid = self.keys.namespaces[*n].id();
                    let mut toks = Vec::new();
                    for e in rs.store.get_many(nsid, self.build_query(q))? {
                        toks.push(stored_tok(&e?));
                    }
                    let imp = entries_line(&toks);
                    let qt = self.query_tok(q);
                    lines.push(Line::model(format!("tquery 1 {} {}", hex(nsid.as_bytes()), qt), imp.clone()));
                    lines.push(Line::oracle(format!("squery 1 {} {}", hex(nsid.as_bytes()), qt), imp));
                }
                Op::GetExact { n, a, key, incl } => {
                    let nsid = self.keys.namespaces[*n].id();
                    let author = self.keys.authors[*a].id();
                    let got = rs.store.get_exact(nsid, author, key, *incl)?;
                    let imp = match got {
                        Some(e) => format!("some {}", stored_tok(&e)),
                        None => "none".to_string(),
                    };
                    lines.push(Line::model(
                        format!("tgetexact 1 {} {} {} {}", hex(nsid.as_bytes()), hex(author.as_bytes()), hex(key), *incl as u8),
                        imp.clone(),
                    ));
                    // point lookups agree with queries: the same answer as an exact author+key query
                    let q = Q { kind: 0, author: Some(*a), kf: Kf::Exact(key.clone()), limit: None, offset: 0, incl: *incl, desc: false };
                    let via_query = match rs.store.get_many(nsid, self.build_query(&q))?.next() {
                        Some(e) => format!("some {}", stored_tok(&e?)),
                        None => "none".to_string(),
                    };
                    lines.push(Line::oracle(
                        format!("tgetexact 1 {} {} {} {}", hex(nsid.as_bytes()), hex(author.as_bytes()), hex(key), *incl as u8),
                        via_query,
                    ));
                }
            }
        }
        Ok(lines)
    }
    fn features(&self, ops: &[Op], lines: &[Line]) -> Vec<String> {
        let mut f = vec![];
        for o in ops {
            if let Op::Query { q, .. } = o {
                f.push(format!("kind:{}", ["flat-ak", "flat-ka", "latest"][q.kind.min(2) as usize]));
                f.push(format!("author:{}", if q.author.is_some() { "exact" } else { "any" }));
                f.push(format!("key:{}", match q.kf { Kf::Any => "any", Kf::Exact(_) => "exact", Kf::Prefix(_) => "prefix" }));
                f.push(format!("limit:{}", if q.limit.is_some() { "some" } else { "none" }));
                f.push(format!("offset:{}", if q.offset > 0 { ">0" } else { "0" }));
                f.push(format!("incl:{}", q.incl));
                f.push(format!("desc:{}", q.desc));
            }
        }
        for l in lines {
            if l.op.starts_with("tquery") {
                f.push(if l.imp.starts_with("entries 0") { "result:empty".into() } else { "result:nonempty".into() });
            }
            if l.op.starts_with("tput") && l.imp.starts_with("inserted") && l.imp != "inserted 0" {
                f.push("state:pruned(stale-index-rows)".into());
            }
        }
        f.sort();
        f.dedup();
        f
    }
    fn nontrivial(&self, ops: &[Op], lines: &[Line]) -> bool {
        ops.iter().filter(|o| matches!(o, Op::Put { .. })).count() >= 3
            && lines.iter().any(|l| l.op.starts_with("tquery") && !l.imp.starts_with("entries 0"))
    }
}
