//! C06 — flushed data survives; a crash never exposes a half-applied write.
//!
//! A file-backed store runs a history of operations while hook H5 places the age-based automatic
//! commit at chosen store accesses. After every operation the database file is copied without
//! commit ("the process died here") and the copy is opened with `Store::persistent`; everything
//! observable on the copy is compared with the model's durable state, with the states a twin store
//! passes through between complete operations, and across the two query paths and the heads.

use iroh_docs::{
    store::{Query, SortBy, SortDirection, Store},
    sync::{Capability, ContentStatus},
};
use serde::{Deserialize, Serialize};

use crate::{c02::gen_key, common::*, storeops::{gen_pol, peer_id, policy_tok, Pol}, world::*};

#[derive(Clone, Debug, Serialize, Deserialize)]
pub enum Op {
    /// the store accesses (numbered from 0) that find the open transaction aged
    Aged { at: Vec<u64> },
    Import { n: usize, write: bool },
    Put { n: usize, a: usize, key: Vec<u8>, c: Option<usize>, ts: u64 },
    Remove { n: usize },
    Peer { n: usize, t: u64, p: u8 },
    Policy { n: usize, pol: Pol },
    Flush,
    /// `get_exact` (a read through the open write transaction)
    ReadTables { n: usize },
    /// `get_many` (commits)
    ReadOwned { n: usize },
    /// `list_namespaces` (commits)
    ReadSnapshot,
}

pub struct C06 {
    pub keys: Keys,
}

impl C06 {
    pub fn new() -> Self {
        let mut keys = Keys::new(2, 3);
        keys.namespaces.sort_by_key(|n| *n.id().as_bytes());
        C06 { keys }
    }
}

/// everything observable about the store, as model lines for table store `sid`
fn observe(store: &mut Store, keys: &Keys, sid: usize) -> anyhow::Result<(Vec<Line>, String)> {
    let mut lines = vec![];
    let mut digest = String::new();
    let mut v = Vec::new();
    for r in store.list_namespaces()? {
        let (id, kind) = r?;
        v.push(format!("{}={}", hex(id.as_bytes()), u8::from(kind)));
    }
    let nsline = format!("namespaces {}", v.join(";"));
    digest.push_str(&nsline);
    lines.push(Line::model(format!("tnamespaces {sid}"), nsline));
    for ns in &keys.namespaces {
        let nsid = ns.id();
        let nsh = hex(nsid.as_bytes());
        let mut dumps = vec![];
        for (qt, q) in [
            ("flat-ak * any - 0 1 0", Query::all().include_empty().build()),
            ("flat-ka * any - 0 1 0", Query::all().include_empty().sort_by(SortBy::KeyAuthor, SortDirection::Asc).build()),
        ] {
            let mut toks = Vec::new();
            for e in store.get_many(nsid, q)? {
                toks.push(stored_tok(&e?));
            }
            let d = entries_line(&toks);
            lines.push(Line::model(format!("tquery {sid} {nsh} {qt}"), d.clone()));
            digest.push_str(&d);
            toks.sort();
            dumps.push(toks);
        }
        // the two physical access paths give the same set
        lines.push(Line::oracle("sconst index-paths-agree", if dumps[0] == dumps[1] { "index-paths-agree" } else { "index-paths-differ" }));
        // point lookups agree with the query
        let mut lookups_ok = true;
        for e in store.get_many(nsid, Query::all().include_empty().build())? {
            let e = e?;
            let got = store.get_exact(nsid, e.author(), e.key(), true)?;
            lookups_ok &= got.as_ref() == Some(&e);
        }
        lines.push(Line::oracle("sconst lookups-agree", if lookups_ok { "lookups-agree" } else { "lookups-differ" }));
        let mut hs = Vec::new();
        let mut headts = Vec::new();
        for h in store.get_latest_for_each_author(nsid)? {
            let (a, ts, key) = h?;
            hs.push(format!("{}:{}:{}", hex(a.as_bytes()), ts, hex(&key)));
            headts.push(format!("{}={}", hex(a.as_bytes()), ts));
        }
        let hl = format!("heads {} {}", hs.len(), hs.join(";"));
        digest.push_str(&hl);
        lines.push(Line::model(format!("theads {sid} {nsh}"), hl));
        lines.push(Line::oracle(format!("sheads {sid} {nsh}"), format!("headts {}", if headts.is_empty() { "-".to_string() } else { headts.join(";") })));
        let peers = match store.get_sync_peers(&nsid)? {
            None => "none".to_string(),
            Some(it) => {
                let v: Vec<String> = it.map(|p| hex(&p)).collect();
                format!("peers {} {}", v.len(), v.join(";"))
            }
        };
        digest.push_str(&peers);
        lines.push(Line::model(format!("tpeers {sid} {nsh}"), peers));
        let pol = policy_tok(&store.get_download_policy(&nsid)?);
        digest.push_str(&pol);
        lines.push(Line::model(format!("tgetpolicy {sid} {nsh}"), pol));
    }
    Ok((lines, digest))
}

impl Property for C06 {
    type Op = Op;
    fn id(&self) -> &'static str {
        "C06"
    }
    fn rule(&self) -> String {
        "histories of 3-14 operations on a persistent store with 2 documents (imports, remote inserts incl. pruning deletion markers, in an eighth of the cases an insert that prunes 16-24 entries at once, removal, peers, policies, explicit flush, reads through tables()/snapshot_owned()/snapshot()) with the age-based automatic commit forced at 0-3 chosen store accesses (every access index of every operation in the thorough tier); after every operation the database file is copied without commit and reopened; non-trivial = an automatic commit fell inside or between operations that had modified the store, or a flush/commit was followed by further modifications; distinct = distinct operation lists".into()
    }
    fn corpus(&self) -> Vec<(String, Vec<Op>)> {
        let put = |k: &[u8], c: Option<usize>, ts: u64| Op::Put { n: 0, a: 0, key: k.to_vec(), c, ts };
        let mut v = vec![];
        // F10: child flushed, then the marker: the automatic commit at every access index of the put
        for at in 0..10u64 {
            v.push((format!("f10-commit-at-access-{at}"), vec![
                Op::Aged { at: vec![at] }, Op::Import { n: 0, write: true }, put(b"ab", Some(0), 5), Op::Flush, put(b"a", None, 10), put(b"b", Some(1), 3),
            ]));
        }
        v
    }
    fn generate(&self, rng: &mut Rng, i: usize, thorough: bool) -> Vec<Op> {
        let mut ops = vec![];
        let n_ops = rng.range(3, if thorough { 20 } else { 14 });
        let n_aged = rng.range(0, 3);
        // an operation makes at most 4 accesses
        let at: Vec<u64> = if i % 4 == 0 {
            // a dense placement: one commit at a sliding position
            vec![(i / 4) as u64 % (4 * n_ops as u64)]
        } else {
            (0..n_aged).map(|_| rng.below(4 * n_ops) as u64).collect()
        };
        ops.push(Op::Aged { at });
        ops.push(Op::Import { n: 0, write: true });
        if rng.chance(2, 3) {
            ops.push(Op::Import { n: 1, write: rng.chance(1, 2) });
        }
        if rng.chance(1, 8) {
            // one insert that prunes many entries: 16-24 entries below a common prefix, then the prefix
            let a = rng.below(3);
            for i in 0..rng.range(16, 24) {
                ops.push(Op::Put { n: 0, a, key: vec![0x61, i as u8], c: Some(i % 3), ts: 5 });
            }
            if rng.chance(1, 2) {
                ops.push(Op::Flush);
            }
            ops.push(Op::Put { n: 0, a, key: vec![0x61], c: if rng.chance(1, 2) { None } else { Some(0) }, ts: 10 });
        }
        for _ in 0..n_ops {
            let n = if rng.chance(3, 4) { 0 } else { 1 };
            ops.push(match rng.below(20) {
                0..=10 => Op::Put { n, a: rng.below(3), key: gen_key(rng), c: if rng.chance(1, 3) { None } else { Some(rng.below(3)) }, ts: *rng.pick(&crate::c02::TIMES) },
                11 => Op::Remove { n },
                12 => Op::Import { n, write: rng.chance(1, 2) },
                13 => Op::Peer { n, t: 100 + ops.len() as u64, p: rng.below(3) as u8 },
                14 => Op::Policy { n, pol: gen_pol(rng) },
                15..=16 => Op::Flush,
                17 => Op::ReadTables { n },
                18 => Op::ReadOwned { n },
                _ => Op::ReadSnapshot,
            });
        }
        ops
    }
    fn execute(&self, ops: &[Op]) -> anyhow::Result<Vec<Line>> {
        let rt = rt();
        set_clock(NOW);
        let aged: Vec<u64> = ops.iter().find_map(|o| if let Op::Aged { at } = o { Some(at.clone()) } else { None }).unwrap_or_default();
        let aged_tok = if aged.is_empty() { "-".to_string() } else { aged.iter().map(|a| a.to_string()).collect::<Vec<_>>().join(",") };
        let dbfile = tempfile::NamedTempFile::new()?;
        let mut store = Store::persistent(dbfile.path())?;
        // a twin that only ever sees complete operations: the states "between two complete operations"
        let mut twin = Store::memory();
        let mut boundary_digests: Vec<String> = vec![];
        let mut lines = vec![Line::model("pnew 1", "ok")];
        {
            let (_, d) = observe(&mut twin, &self.keys, 0)?;
            boundary_digests.push(d);
        }
        iroh_docs::verif::set_age_control(None);
        let mut result: anyhow::Result<()> = Ok(());
        let mut crash_no = 0usize;
        let mut last_flush_boundary: Option<usize> = None;
        // store accesses of the store under test so far (global numbering)
        let mut global: u64 = 0;
        for op in ops {
            let apply = |s: &mut Store| -> anyhow::Result<Option<String>> {
                let tok = match op {
                    Op::Aged { .. } => None,
                    Op::Import { n, write } => {
                        let ns = &self.keys.namespaces[*n];
                        let cap = if *write { Capability::Write(ns.clone()) } else { Capability::Read(ns.id()) };
                        let (kind, raw) = cap.raw();
                        s.import_namespace(cap)?;
                        Some(format!("importns {} {} {}", hex(ns.id().as_bytes()), kind, hex(&raw)))
                    }
                    Op::Put { n, a, key, c, ts } => {
                        let ns = &self.keys.namespaces[*n];
                        let e = make_entry(ns, &self.keys.authors[*a], key, *c, *ts);
                        if let Ok(mut r) = s.open_replica(&ns.id()) {
                            let _ = rt.block_on(r.insert_remote_entry(e.clone(), PEER, ContentStatus::Missing));
                            drop(r);
                            s.close_replica(ns.id());
                        }
                        Some(format!("put {}", honest_tok(&e)))
                    }
                    Op::Remove { n } => {
                        let _ = s.remove_replica(&self.keys.namespaces[*n].id());
                        Some(format!("remove {}", hex(self.keys.namespaces[*n].id().as_bytes())))
                    }
                    Op::Peer { n, t, p } => {
                        set_clock(*t);
                        let _ = s.register_useful_peer(self.keys.namespaces[*n].id(), peer_id(*p));
                        set_clock(NOW);
                        Some(format!("peer {} {} {}", hex(self.keys.namespaces[*n].id().as_bytes()), t * 1000, hex(&peer_id(*p))))
                    }
                    Op::Policy { n, pol } => {
                        let _ = s.set_download_policy(&self.keys.namespaces[*n].id(), pol.real());
                        Some(format!("policy {} {}", hex(self.keys.namespaces[*n].id().as_bytes()), pol.tok()))
                    }
                    Op::Flush => {
                        s.flush()?;
                        Some("flush".to_string())
                    }
                    Op::ReadTables { n } => {
                        let _ = s.get_exact(self.keys.namespaces[*n].id(), self.keys.authors[0].id(), b"", true)?;
                        Some("readtables".to_string())
                    }
                    Op::ReadOwned { n } => {
                        let _ = s.get_many(self.keys.namespaces[*n].id(), Query::all())?.count();
                        Some("readowned".to_string())
                    }
                    Op::ReadSnapshot => {
                        let _ = s.list_namespaces()?.count();
                        Some("readsnap".to_string())
                    }
                };
                Ok(tok)
            };
            // the twin (no age control) …
            if let Err(e) = apply(&mut twin) {
                result = Err(e);
                break;
            }
            // … then the store under test, with the automatic commit placed at the chosen accesses
            iroh_docs::verif::set_age_control(Some(aged.iter().filter(|a| **a >= global).map(|a| *a - global).collect()));
            let r = apply(&mut store);
            global += iroh_docs::verif::access_count();
            iroh_docs::verif::set_age_control(None);
            let tok = match r {
                Ok(t) => t,
                Err(e) => {
                    result = Err(e);
                    break;
                }
            };
            let Some(tok) = tok else { continue };
            lines.push(Line::model(format!("prun 1 0 {aged_tok} {tok}"), format!("accesses={global}")));
            // boundary state after this complete operation (from the twin)
            {
                let (_, d) = observe(&mut twin, &self.keys, 0)?;
                boundary_digests.push(d);
            }
            if matches!(op, Op::Flush | Op::ReadOwned { .. } | Op::ReadSnapshot) {
                last_flush_boundary = Some(boundary_digests.len() - 1);
            }
            // the process dies here: copy the file without commit, reopen the copy (on another
            // thread: the age control of this thread must not count the copy's accesses)
            crash_no += 1;
            let tid = 100 + crash_no;
            let img = tempfile::NamedTempFile::new()?;
            std::fs::copy(dbfile.path(), img.path())?;
            let keys = &self.keys;
            let img_path = img.path().to_path_buf();
            let observed = std::thread::scope(|sc| {
                sc.spawn(move || -> anyhow::Result<(Vec<Line>, String)> {
                    set_clock(NOW);
                    let mut crashed = Store::persistent(&img_path)?;
                    observe(&mut crashed, keys, tid)
                })
                .join()
            });
            match observed {
                Ok(Ok((obs, digest))) => {
                    lines.push(Line::model(format!("pcrash 1 {tid}"), "ok"));
                    lines.extend(obs);
                    // specification: the image is a state between two complete operations …
                    let pos = boundary_digests.iter().rposition(|d| *d == digest);
                    lines.push(Line::oracle("sconst crash-image-is-a-boundary-state", if pos.is_some() { "crash-image-is-a-boundary-state".to_string() } else { "crash-image-is-not-a-state-between-complete-operations".to_string() }));
                    // … and not older than the last flush
                    if let (Some(p), Some(f)) = (pos, last_flush_boundary) {
                        lines.push(Line::oracle("sconst flushed-data-survives", if p >= f { "flushed-data-survives".to_string() } else { format!("image-is-boundary-{p}-older-than-flush-at-{f}") }));
                    }
                }
                Ok(Err(e)) => lines.push(Line::oracle("sconst reopened-store-opens", format!("reopen-failed:{e:#}"))),
                Err(_) => lines.push(Line::oracle("sconst reopened-store-opens", "reopen-panicked")),
            }
        }
        iroh_docs::verif::set_age_control(None);
        result?;
        Ok(lines)
    }
    fn features(&self, ops: &[Op], lines: &[Line]) -> Vec<String> {
        let mut f = vec![];
        for o in ops {
            f.push(format!("op:{}", format!("{o:?}").split([' ', '{']).next().unwrap_or("")));
            if let Op::Aged { at } = o {
                f.push(format!("forced-commits:{}", at.len()));
            }
        }
        let crashes = lines.iter().filter(|l| l.op.starts_with("pcrash")).count();
        f.push(format!("crash-images:{}", match crashes { 0..=4 => "1-4", 5..=9 => "5-9", _ => "10+" }));
        f.sort();
        f.dedup();
        f
    }
    fn nontrivial(&self, ops: &[Op], _lines: &[Line]) -> bool {
        let puts = ops.iter().filter(|o| matches!(o, Op::Put { .. })).count();
        let commits = ops.iter().any(|o| matches!(o, Op::Flush | Op::ReadOwned { .. } | Op::ReadSnapshot) || matches!(o, Op::Aged { at } if !at.is_empty()));
        puts >= 2 && commits
    }
}
