//! The live actor's handlers (hook H9), compared with `Model/Live.lean` step by step.
//!
//! One real live actor on a real endpoint with real gossip, blob store, downloader and store actor; its
//! loop does not run: the harness calls the handlers the loop would call (`on_replica_event`,
//! `on_download_ready`, the actor messages, the completion handlers) and plays everything outside
//! (the replica's events, the network, the downloader's completions). After every step the harness
//! compares, with the model: the dials decided, the gossip messages handed to an active topic, the
//! requests handed to the downloader, what every subscriber channel received, the reply, and the
//! whole book-keeping (documents and flags, topics, both maps of the download queue, missing hashes,
//! providers, the slots of every peer, the useful peers remembered by the store).
//!
//! Specifications (what the property clauses say at this layer):
//!  * C15: a remote insert is *selected for download* exactly when its event says so
//!    (`download-selected-iff-policy`);
//!  * C04: an applied local write is handed to gossip exactly once, as `Put` of that entry, exactly
//!    while the document is being synced (`local-write-is-broadcast`);
//!  * C13 / C11: a sync report leads to a dial or a pending follow-up exactly when it names news;
//!  * C17: a peer is remembered as useful exactly after a session that ended well.

use std::sync::Mutex;

use iroh::{endpoint::presets, Endpoint, PublicKey};
use iroh_docs::{
    actor::SyncHandle,
    engine::{
        verif_live::{ActorEvent, Coordinator},
        Origin, SyncReason,
    },
    net::{AbortReason, AcceptError, AcceptOutcome, ConnectError, SyncFinished},
    AuthorHeads, ContentStatus, NamespaceId, NamespaceSecret, SyncOutcome,
};
use serde::{Deserialize, Serialize};

use crate::{
    common::*,
    world::{content, make_entry},
};

#[derive(Clone, Debug, Serialize, Deserialize)]
pub enum Op {
    /// `start_sync`; document 2 is unknown to the store (the open fails)
    Start { d: u8 },
    Leave { d: u8, kill: bool },
    /// somebody else closes the document in the store actor (the live actor's handle is released behind
    /// its back): the next `leave` fails half-way
    ForceClose { d: u8 },
    Sub { d: u8 },
    DropChan { c: u8 },
    Nup { d: u8, p: u8 },
    Ndown { d: u8, p: u8 },
    /// the replica reports an applied local write of entry `e`
    Local { d: u8, e: u8 },
    /// the replica reports an applied remote entry with content `h` provided by peer `p`
    /// (`p = 9`: bytes that are not a node id)
    Remote { d: u8, h: u8, p: u8, dl: bool, status: u8 },
    DlReady { d: u8, h: u8, ok: bool },
    CReady { d: u8, p: u8, h: u8 },
    Report { p: u8, d: u8, v: u8 },
    Accept { d: u8, p: u8 },
    Dial { d: u8, p: u8, reason: u8 },
    /// a connect task ends: 0 ok without entries, 1 ok with received entries, 2 declined (already syncing), 3 error,
    /// 4 ok with received entries and heads that do not fit a gossip message
    CFin { d: u8, p: u8, reason: u8, res: u8 },
    /// an accept task ends: 0 ok, 1 ok with received entries, 2 declined by us (already syncing), 3 named error, 4 unnamed error
    AFin { d: u8, p: u8, kind: u8 },
}

struct World {
    rt: tokio::runtime::Runtime,
    coord: Coordinator,
    sync: SyncHandle,
    blobs: iroh_blobs::store::mem::MemStore,
    me: PublicKey,
    _endpoint: Endpoint,
    cases: u32,
}

pub struct Live {
    world: Mutex<Option<World>>,
    id: &'static str,
}

const N_HASH: usize = 4;
/// the content with this index is in the blob store
const COMPLETE: usize = 3;

fn peers() -> Vec<PublicKey> {
    (0..3u8).map(|i| iroh::SecretKey::from_bytes(&[0x51 + i; 32]).public()).collect()
}

impl Live {
    pub fn new(id: &'static str) -> Self {
        Live { world: Mutex::new(None), id }
    }
    fn build_world() -> anyhow::Result<World> {
        let rt = tokio::runtime::Builder::new_multi_thread().worker_threads(2).enable_all().build()?;
        let (coord, sync, blobs, me, endpoint) = rt.block_on(async {
            let endpoint = Endpoint::builder(presets::Minimal)
                .secret_key(iroh::SecretKey::from_bytes(&[0x55; 32]))
                .bind()
                .await
                .map_err(|e| anyhow::anyhow!("bind: {e}"))?;
            let gossip = iroh_gossip::net::Gossip::builder().spawn(endpoint.clone());
            let blobs = iroh_blobs::store::mem::MemStore::new();
            let downloader = blobs.downloader(&endpoint);
            let store = iroh_docs::store::Store::memory();
            let sync = SyncHandle::spawn(store, None, "live".to_string());
            let coord = Coordinator::new(sync.clone(), endpoint.clone(), gossip, (*blobs).clone(), downloader)?;
            anyhow::Ok((coord, sync, blobs, endpoint.id(), endpoint))
        })?;
        Ok(World { rt, coord, sync, blobs, me, _endpoint: endpoint, cases: 0 })
    }
}

fn reason_of(r: u8) -> SyncReason {
    match r % 4 {
        0 => SyncReason::DirectJoin,
        1 => SyncReason::NewNeighbor,
        2 => SyncReason::SyncReport,
        _ => SyncReason::Resync,
    }
}
fn reason_code(r: &SyncReason) -> u8 {
    match r {
        SyncReason::DirectJoin => 0,
        SyncReason::NewNeighbor => 1,
        SyncReason::SyncReport => 2,
        SyncReason::Resync => 3,
    }
}

fn show_event(ev: &ActorEvent) -> String {
    match ev {
        ActorEvent::ContentReady { hash } => format!("content-ready:{}", hex(hash.as_bytes())),
        ActorEvent::NeighborUp(p) => format!("neighbor-up:{}", hex(p.as_bytes())),
        ActorEvent::NeighborDown(p) => format!("neighbor-down:{}", hex(p.as_bytes())),
        ActorEvent::SyncFinished(ev) => {
            let origin = match &ev.origin {
                Origin::Accept => 0,
                Origin::Connect(r) => 1 + reason_code(r),
            };
            let res = match &ev.result {
                Ok(d) => format!("ok:{}:{}", d.entries_received, d.entries_sent),
                Err(_) => "failed".to_string(),
            };
            format!("sync-finished:{}:{}:{}", hex(ev.peer.as_bytes()), origin, res)
        }
        ActorEvent::PendingContentReady => "pending-content-ready".to_string(),
    }
}

/// the fields a view shows (the same table as `LiveTok.inView` of the driver)
fn in_view(view: &str, field: &str) -> bool {
    match view {
        "C04" => ["bcasts", "events", "reply", "docs", "topics"].contains(&field),
        "C15" => ["downloads", "byhash", "byns", "missing", "providers", "docs"].contains(&field),
        "C11" => ["dials", "reply", "slots", "docs"].contains(&field),
        "C17" => ["peers", "reply"].contains(&field),
        _ => true,
    }
}

fn join_or(mut v: Vec<String>, sort: bool) -> String {
    if sort {
        v.sort();
    }
    if v.is_empty() {
        "-".to_string()
    } else {
        v.join(",")
    }
}

fn heads_tok(h: &[(iroh_docs::AuthorId, u64)]) -> String {
    if h.is_empty() {
        return "-".into();
    }
    let mut v: Vec<_> = h.to_vec();
    v.sort();
    v.iter().map(|(a, t)| format!("{}={}", hex(a.as_bytes()), t)).collect::<Vec<_>>().join(";")
}

impl Property for Live {
    type Op = Op;
    fn id(&self) -> &'static str {
        self.id
    }
    fn case_prefix(&self) -> &'static str {
        "live-"
    }
    fn parallel(&self) -> bool {
        false
    }
    fn rule(&self) -> String {
        "histories of 6-40 handler calls on one real live actor (hook H9; its loop does not run) over two documents it can sync and one the store does not know, three peers (ids below and above the node's), four contents (one present in the blob store): start_sync / leave (with and without killing subscribers; also after the replica was closed behind the live actor's back, so that leave fails half-way), subscriptions and vanished subscribers, neighbours up and down, replica events (applied local writes; applied remote entries with every content status, download flag on and off, provider bytes that are no node id), download completions (ok / failed, also for hashes never queued), neighbours announcing content, sync reports (older, equal, newer, unknown author, undecodable), incoming requests, dial decisions with every reason, connect and accept task completions of every kind (success with and without received entries, heads too large for a gossip message, declined, failed, unnamed); non-trivial = at least one download decision and one session completion while syncing; distinct = distinct concrete histories".into()
    }
    fn corpus(&self) -> Vec<(String, Vec<Op>)> {
        vec![
            ("live-download-flag-off-is-ignored".into(), vec![Op::Start { d: 0 }, Op::Sub { d: 0 }, Op::Remote { d: 0, h: 0, p: 0, dl: false, status: 0 }, Op::Remote { d: 0, h: 1, p: 0, dl: true, status: 0 }, Op::Remote { d: 0, h: 2, p: 1, dl: true, status: 2 }, Op::CReady { d: 0, p: 2, h: 2 }, Op::DlReady { d: 0, h: 1, ok: true }, Op::DlReady { d: 0, h: 2, ok: false }]),
            ("live-two-documents-one-hash".into(), vec![Op::Start { d: 0 }, Op::Start { d: 1 }, Op::Sub { d: 0 }, Op::Sub { d: 1 }, Op::Remote { d: 0, h: 0, p: 0, dl: true, status: 0 }, Op::Remote { d: 1, h: 0, p: 1, dl: true, status: 0 }, Op::Accept { d: 0, p: 0 }, Op::AFin { d: 0, p: 0, kind: 1 }, Op::Accept { d: 1, p: 1 }, Op::AFin { d: 1, p: 1, kind: 0 }, Op::DlReady { d: 0, h: 0, ok: true }]),
            ("live-local-write-broadcast-only-while-syncing".into(), vec![Op::Local { d: 0, e: 0 }, Op::Start { d: 0 }, Op::Local { d: 0, e: 1 }, Op::Local { d: 1, e: 2 }, Op::Leave { d: 0, kill: false }, Op::Local { d: 0, e: 3 }]),
            ("live-report-while-busy-follow-up".into(), vec![Op::Start { d: 0 }, Op::Dial { d: 0, p: 0, reason: 1 }, Op::Report { p: 0, d: 0, v: 2 }, Op::CFin { d: 0, p: 0, reason: 1, res: 1 }, Op::CFin { d: 0, p: 0, reason: 3, res: 2 }]),
            ("live-known-peers-dialled-on-start".into(), vec![Op::Start { d: 0 }, Op::Accept { d: 0, p: 1 }, Op::AFin { d: 0, p: 1, kind: 0 }, Op::Leave { d: 0, kill: true }, Op::Start { d: 0 }, Op::Start { d: 2 }]),
            ("live-leave-fails-half-way".into(), vec![Op::Start { d: 0 }, Op::Sub { d: 0 }, Op::ForceClose { d: 0 }, Op::Leave { d: 0, kill: true }, Op::Local { d: 0, e: 0 }, Op::Start { d: 0 }, Op::Local { d: 0, e: 1 }, Op::Leave { d: 0, kill: true }]),
            ("live-heads-too-large-for-gossip".into(), vec![Op::Start { d: 0 }, Op::Dial { d: 0, p: 2, reason: 0 }, Op::CFin { d: 0, p: 2, reason: 0, res: 4 }]),
        ]
    }
    fn generate(&self, rng: &mut Rng, _i: usize, thorough: bool) -> Vec<Op> {
        let mut ops = vec![];
        // most histories start by syncing a document
        if !rng.chance(1, 8) {
            ops.push(Op::Start { d: 0 });
        }
        if rng.chance(1, 2) {
            ops.push(Op::Start { d: 1 });
        }
        let n = rng.range(6, if thorough { 60 } else { 40 });
        for _ in 0..n {
            let d = if rng.chance(1, 12) { 2 } else { rng.below(2) as u8 };
            let p = rng.below(3) as u8;
            let h = rng.below(N_HASH) as u8;
            let op = match rng.below(30) {
                0 => Op::Start { d },
                1 => if rng.chance(1, 4) { Op::ForceClose { d } } else { Op::Leave { d, kill: rng.chance(1, 2) } },
                2 | 3 => Op::Sub { d },
                4 => Op::DropChan { c: rng.below(4) as u8 },
                5 => Op::Nup { d, p },
                6 => Op::Ndown { d, p },
                7 | 8 => Op::Local { d, e: rng.below(4) as u8 },
                9..=13 => Op::Remote { d, h, p: if rng.chance(1, 10) { 9 } else { p }, dl: !rng.chance(1, 3), status: *rng.pick(&[0u8, 0, 0, 1, 2]) },
                14..=16 => Op::DlReady { d, h, ok: !rng.chance(1, 3) },
                17 | 18 => Op::CReady { d, p, h },
                19 | 20 => Op::Report { p, d, v: rng.below(6) as u8 },
                21 | 22 => Op::Accept { d, p },
                23 | 24 => Op::Dial { d, p, reason: rng.below(4) as u8 },
                25..=27 => Op::CFin { d, p, reason: rng.below(4) as u8, res: rng.below(5) as u8 },
                _ => Op::AFin { d, p, kind: rng.below(5) as u8 },
            };
            ops.push(op);
        }
        ops
    }
    fn nontrivial(&self, ops: &[Op], _lines: &[Line]) -> bool {
        ops.iter().any(|o| matches!(o, Op::Remote { .. })) && ops.iter().any(|o| matches!(o, Op::CFin { .. } | Op::AFin { .. })) && ops.iter().any(|o| matches!(o, Op::Start { .. }))
    }
    fn features(&self, ops: &[Op], lines: &[Line]) -> Vec<String> {
        let mut f = vec![];
        for o in ops {
            f.push(match o {
                Op::Start { .. } => "start", Op::Leave { .. } => "leave", Op::ForceClose { .. } => "closed-behind-its-back", Op::Sub { .. } => "subscribe", Op::DropChan { .. } => "drop-subscriber",
                Op::Nup { .. } => "neighbor-up", Op::Ndown { .. } => "neighbor-down", Op::Local { .. } => "local-insert-event",
                Op::Remote { dl: true, status: 0, .. } => "remote-event-download", Op::Remote { dl: true, .. } => "remote-event-missing", Op::Remote { .. } => "remote-event-no-download",
                Op::DlReady { ok: true, .. } => "download-ok", Op::DlReady { .. } => "download-failed", Op::CReady { .. } => "neighbor-content-ready",
                Op::Report { .. } => "sync-report", Op::Accept { .. } => "accept-request", Op::Dial { .. } => "dial",
                Op::CFin { res: 2, .. } => "connect-declined", Op::CFin { .. } => "connect-finished", Op::AFin { .. } => "accept-finished",
            }.to_string());
        }
        for l in lines {
            if l.imp.contains("downloads=") && !l.imp.contains("downloads=-") { f.push("out:download-request".into()); }
            if l.imp.contains("bcasts=") && !l.imp.contains("bcasts=-") { f.push("out:gossip-message".into()); }
            if l.imp.contains("pending-content-ready") { f.push("out:pending-content-ready".into()); }
            if l.imp.contains("sync-finished") { f.push("out:sync-finished-event".into()); }
        }
        f.sort();
        f.dedup();
        f
    }
    fn execute(&self, ops: &[Op]) -> anyhow::Result<Vec<Line>> {
        let mut guard = self.world.lock().unwrap();
        if guard.as_ref().map(|w| w.cases >= 300).unwrap_or(true) {
            *guard = None;
            *guard = Some(Self::build_world()?);
        }
        let w = guard.as_mut().unwrap();
        w.cases += 1;
        let mk_ns = |k: u8| {
            let mut secret = [0x66u8; 32];
            secret[..4].copy_from_slice(&w.cases.to_be_bytes());
            secret[4] = k;
            NamespaceSecret::from_bytes(&secret)
        };
        let nss: Vec<NamespaceSecret> = (0..3).map(mk_ns).collect();
        let ids: Vec<NamespaceId> = nss.iter().map(|n| n.id()).collect();
        let ps = peers();
        let me = w.me;
        let author = iroh_docs::Author::from_bytes(&[0x41; 32]);
        let author_b = iroh_docs::Author::from_bytes(&[0x42; 32]);
        // contents of this case only (the live actor is reused from case to case; its queue is keyed by hash)
        let base = 1000 + (w.cases as usize) * 8;
        let hashes: Vec<iroh_blobs::Hash> = (0..N_HASH).map(|i| content(base + i).0).collect();
        let smaller: Vec<String> = ps.iter().filter(|p| me.as_bytes() > p.as_bytes()).map(|p| hex(p.as_bytes())).collect();
        let mut lines = vec![];
        iroh_docs::verif::set_dial_recording(true);
        iroh_docs::verif::set_live_recording(true);
        let World { rt, coord, sync, blobs, .. } = w;
        let _ = &blobs;
        let id_str = self.id;
        let view = if self.id == "LIVE" { "all" } else { self.id };
        let res: anyhow::Result<()> = rt.block_on(async {
            // documents 0 and 1 exist in the store and hold one entry of author A at time 10
            for k in 0..2 {
                sync.import_namespace(iroh_docs::sync::Capability::Write(nss[k].clone())).await?;
                sync.open(ids[k], iroh_docs::actor::OpenOpts::default().sync()).await?;
                sync.insert_remote(ids[k], make_entry(&nss[k], &author, b"k", Some(0), 10), [7u8; 32], ContentStatus::Missing).await?;
                sync.close(ids[k]).await?;
            }
            blobs.blobs().add_slice(format!("content-{}", base + COMPLETE).as_bytes()).await.map_err(|e| anyhow::anyhow!("add blob: {e}"))?;
            let (_, _, maxmsg) = coord.docs_snapshot(&ids);
            lines.push(Line::model(format!("lnew 1 {maxmsg} {} {view}", if smaller.is_empty() { "-".to_string() } else { smaller.join(",") }), "ok"));
            let _ = iroh_docs::verif::take_dials();
            let _ = iroh_docs::verif::take_broadcasts();
            let _ = iroh_docs::verif::take_downloads();
            let mut chans: Vec<(usize, Option<async_channel::Receiver<ActorEvent>>)> = vec![];
            // documents whose replica was closed behind the live actor's back
            let mut force_closed = [false; 3];
            let watch: Vec<String> = ids.iter().flat_map(|n| ps.iter().map(move |p| format!("{}:{}", hex(n.as_bytes()), hex(p.as_bytes())))).collect();
            let mk_fin = |d: usize, p: usize, recv: usize, heads: AuthorHeads| SyncFinished {
                namespace: ids[d],
                peer: ps[p],
                outcome: SyncOutcome { num_recv: recv, num_sent: 1, heads_received: heads },
                timings: Default::default(),
            };
            let small_heads = || {
                let mut h = AuthorHeads::default();
                h.insert(author.id(), 12);
                h.insert(author_b.id(), 3);
                h
            };
            let big_heads = |n: usize| {
                let mut h = AuthorHeads::default();
                for i in 0..n {
                    let mut a = [0u8; 32];
                    a[..8].copy_from_slice(&(i as u64).to_be_bytes());
                    h.insert(iroh_docs::AuthorId::from(a), 1000 + i as u64);
                }
                h
            };
            for op in ops {
                if std::env::var("VERIF_TRACE").is_ok() {
                    eprintln!("live op {op:?}");
                }
                let nsx = |d: &u8| hex(ids[*d as usize % 3].as_bytes());
                let px = |p: &u8| hex(ps[*p as usize % 3].as_bytes());
                let mut reply = String::new();
                // specification lines of this step
                let mut specs: Vec<Line> = vec![];
                let mut local_spec: Option<(NamespaceId, bool, Vec<u8>)> = None;
                let tok = match op {
                    Op::Start { d } => {
                        let d_ = *d as usize % 3;
                        let was_syncing = coord.docs_snapshot(&ids).0.iter().any(|x| x.0 == ids[d_]);
                        // what the live actor's own `get_sync_peers` will answer: the request needs an open
                        // document, and an already syncing document is not opened again
                        let known = if was_syncing && force_closed[d_] { vec![] } else { peers_of(sync, ids[d_]).await };
                        let r = coord.start_sync(ids[d_]).await;
                        if !was_syncing && r.is_ok() {
                            force_closed[d_] = false;
                        }
                        reply = format!("reply:{}", r.is_ok() as u8);
                        let open_ok = d_ != 2;
                        let _ = was_syncing;
                        format!("start {} {} {}", nsx(d), open_ok as u8, join_or(known.iter().map(|p| hex(p)).collect(), false))
                    }
                    Op::Leave { d, kill } => {
                        let d_ = *d as usize % 3;
                        let syncing = coord.docs_snapshot(&ids).0.iter().any(|x| x.0 == ids[d_]);
                        let store_ok = !(syncing && force_closed[d_]);
                        let r = coord.leave(ids[d_], *kill).await;
                        force_closed[d_] = false;
                        reply = format!("reply:{}", r.is_ok() as u8);
                        format!("leave {} {} {}", nsx(d), *kill as u8, store_ok as u8)
                    }
                    Op::ForceClose { d } => {
                        let d_ = *d as usize % 3;
                        let syncing = coord.docs_snapshot(&ids).0.iter().any(|x| x.0 == ids[d_]);
                        if syncing && !force_closed[d_] {
                            sync.close(ids[d_]).await.ok();
                            force_closed[d_] = true;
                        }
                        // not a handler of the live actor: its state must not move
                        "dropchan 9999".to_string()
                    }
                    Op::Sub { d } => {
                        let (tx, rx) = async_channel::unbounded();
                        coord.subscribe(ids[*d as usize % 3], tx).await?;
                        let c = chans.len();
                        chans.push((c, Some(rx)));
                        format!("sub {} {}", nsx(d), c)
                    }
                    Op::DropChan { c } => {
                        let c = *c as usize;
                        if c < chans.len() {
                            chans[c].1 = None;
                            format!("dropchan {c}")
                        } else {
                            // no such subscriber (yet): nothing happens
                            format!("dropchan {}", 1000 + c)
                        }
                    }
                    Op::Nup { d, p } => {
                        coord.neighbor_up(ids[*d as usize % 3], ps[*p as usize % 3]).await?;
                        format!("nup {} {}", nsx(d), px(p))
                    }
                    Op::Ndown { d, p } => {
                        coord.neighbor_down(ids[*d as usize % 3], ps[*p as usize % 3]).await?;
                        format!("ndown {} {}", nsx(d), px(p))
                    }
                    Op::Local { d, e } => {
                        let d_ = *d as usize % 3;
                        let entry = make_entry(&nss[d_], &author, format!("key-{e}").as_bytes(), Some(base + *e as usize % N_HASH), 20 + *e as u64);
                        let bytes = postcard::to_stdvec(&entry)?;
                        let syncing = coord.docs_snapshot(&ids).0.iter().any(|x| x.0 == ids[d_]);
                        coord.on_replica_event(iroh_docs::Event::LocalInsert { namespace: ids[d_], entry: entry.clone() }).await?;
                        // C04: handed to gossip exactly once, as `Put` of exactly this entry, iff the document is synced
                        let mut expected = vec![0u8];
                        expected.extend_from_slice(&bytes);
                        local_spec = Some((ids[d_], syncing, expected));
                        format!("local {} {}", nsx(d), hex(&bytes))
                    }
                    Op::Remote { d, h, p, dl, status } => {
                        let d_ = *d as usize % 3;
                        let h_ = *h as usize % N_HASH;
                        let entry = make_entry(&nss[d_], &author_b, format!("r-{h}").as_bytes(), Some(base + h_), 30);
                        let (from, valid): ([u8; 32], bool) = if *p == 9 {
                            // not a curve point
                            let mut b = [0xFFu8; 32];
                            b[0] = 0xEE;
                            let valid = PublicKey::from_bytes(&b).is_ok();
                            (b, valid)
                        } else {
                            (*ps[*p as usize % 3].as_bytes(), true)
                        };
                        let st = match status % 3 {
                            0 => ContentStatus::Complete,
                            1 => ContentStatus::Incomplete,
                            _ => ContentStatus::Missing,
                        };
                        let before = restrict(coord.downloads_snapshot(), &hashes, &ids);
                        coord
                            .on_replica_event(iroh_docs::Event::RemoteInsert { namespace: ids[d_], entry, from, should_download: *dl, remote_content_status: st })
                            .await
                            .ok();
                        let after = restrict(coord.downloads_snapshot(), &hashes, &ids);
                        // C15: selected for download (queued at the downloader, or noted as wanted) iff the event says so;
                        // content already present needs nothing
                        let hash = hashes[h_];
                        let wanted = |s: &(Vec<(iroh_blobs::Hash, Vec<NamespaceId>)>, Vec<(NamespaceId, Vec<iroh_blobs::Hash>)>, Vec<iroh_blobs::Hash>, Vec<(iroh_blobs::Hash, Vec<PublicKey>)>)| {
                            s.0.iter().any(|(x, n)| *x == hash && n.contains(&ids[d_])) || s.2.contains(&hash)
                        };
                        let changed = format!("{:?}", sorted_snapshot(&before)) != format!("{:?}", sorted_snapshot(&after));
                        let verdict = if !*dl {
                            if changed { "not-selected-but-bookkeeping-changed" } else { "download-selected-iff-policy" }
                        } else if h_ == COMPLETE || (!valid && status % 3 == 0) {
                            "download-selected-iff-policy"
                        } else if wanted(&after) {
                            "download-selected-iff-policy"
                        } else {
                            "selected-but-neither-queued-nor-noted"
                        };
                        if view == "all" || view == "C15" { specs.push(Line::oracle("expect download-selected-iff-policy", verdict)); }
                        format!("remote {} {} {} {} {} {} {}", nsx(d), hex(hash.as_bytes()), hex(&from), valid as u8, *dl as u8, status % 3, (h_ == COMPLETE) as u8)
                    }
                    Op::DlReady { d, h, ok } => {
                        let hash = hashes[*h as usize % N_HASH];
                        coord.on_download_ready(ids[*d as usize % 3], hash, *ok).await;
                        format!("dlready {} {} {}", nsx(d), hex(hash.as_bytes()), *ok as u8)
                    }
                    Op::CReady { d, p, h } => {
                        let h_ = *h as usize % N_HASH;
                        coord.neighbor_content_ready(ids[*d as usize % 3], ps[*p as usize % 3], hashes[h_]).await?;
                        format!("cready {} {} {} {}", nsx(d), px(p), hex(hashes[h_].as_bytes()), (h_ == COMPLETE) as u8)
                    }
                    Op::Report { p, d, v } => {
                        let d_ = *d as usize % 3;
                        let mut h = AuthorHeads::default();
                        match v % 6 {
                            0 => h.insert(author.id(), 9),
                            1 => h.insert(author.id(), 10),
                            2 => h.insert(author.id(), 11),
                            3 => h.insert(author_b.id(), 0),
                            _ => {}
                        };
                        let bytes = if v % 6 == 5 { vec![0xFF, 0xFF, 0xFF] } else { h.encode(None)? };
                        let ours: Vec<(iroh_docs::AuthorId, u64)> = if d_ < 2 { vec![(author.id(), 10)] } else { vec![] };
                        coord.on_sync_report(ps[*p as usize % 3], ids[d_], bytes.clone()).await;
                        format!("report {} {} {} {}", px(p), nsx(d), if bytes.is_empty() { "-".to_string() } else { hex(&bytes) }, heads_tok(&ours))
                    }
                    Op::Accept { d, p } => {
                        let out = coord.accept_sync_request(ids[*d as usize % 3], ps[*p as usize % 3]);
                        reply = match out {
                            AcceptOutcome::Allow => "accept:0".into(),
                            AcceptOutcome::Reject(AbortReason::AlreadySyncing) => "accept:1".into(),
                            AcceptOutcome::Reject(AbortReason::NotFound) => "accept:2".into(),
                            AcceptOutcome::Reject(r) => format!("accept:{r:?}"),
                        };
                        format!("accept {} {}", nsx(d), px(p))
                    }
                    Op::Dial { d, p, reason } => {
                        coord.sync_with_peer(ids[*d as usize % 3], ps[*p as usize % 3], reason_of(*reason));
                        format!("dial {} {} {}", nsx(d), px(p), reason % 4)
                    }
                    Op::CFin { d, p, reason, res } => {
                        let (d_, p_) = (*d as usize % 3, *p as usize % 3);
                        let (result, t): (Result<SyncFinished, ConnectError>, String) = match res % 5 {
                            0 => (Ok(mk_fin(d_, p_, 0, small_heads())), format!("ok 0 1 {}", heads_tok(&[(author.id(), 12), (author_b.id(), 3)]))),
                            1 => (Ok(mk_fin(d_, p_, 2, small_heads())), format!("ok 2 1 {}", heads_tok(&[(author.id(), 12), (author_b.id(), 3)]))),
                            2 => (Err(ConnectError::RemoteAbort(AbortReason::AlreadySyncing)), "already".into()),
                            3 => (Err(ConnectError::Sync { error: anyhow::anyhow!("session failed") }), "err".into()),
                            _ => {
                                let n = 200;
                                let hs: Vec<(iroh_docs::AuthorId, u64)> = big_heads(n).iter().map(|(a, t)| (*a, *t)).collect();
                                (Ok(mk_fin(d_, p_, 1, big_heads(n))), format!("ok 1 1 {}", heads_tok(&hs)))
                            }
                        };
                        coord.on_sync_via_connect_finished(ids[d_], ps[p_], reason_of(*reason), result).await;
                        format!("cfin {} {} {} {}", nsx(d), px(p), reason % 4, t)
                    }
                    Op::AFin { d, p, kind } => {
                        let (d_, p_) = (*d as usize % 3, *p as usize % 3);
                        let (result, t): (Result<SyncFinished, AcceptError>, String) = match kind % 5 {
                            0 => (Ok(mk_fin(d_, p_, 0, small_heads())), format!("ok {} {} 0 1 {}", nsx(d), px(p), heads_tok(&[(author.id(), 12), (author_b.id(), 3)]))),
                            1 => (Ok(mk_fin(d_, p_, 3, small_heads())), format!("ok {} {} 3 1 {}", nsx(d), px(p), heads_tok(&[(author.id(), 12), (author_b.id(), 3)]))),
                            2 => (Err(AcceptError::Abort { peer: ps[p_], namespace: ids[d_], reason: AbortReason::AlreadySyncing }), "already".into()),
                            3 => (Err(AcceptError::Sync { peer: ps[p_], namespace: Some(ids[d_]), error: anyhow::anyhow!("session failed") }), format!("named {} {}", nsx(d), px(p))),
                            _ => (Err(AcceptError::Sync { peer: ps[p_], namespace: None, error: anyhow::anyhow!("failed before the first message") }), "unnamed".into()),
                        };
                        coord.on_sync_via_accept_finished(result).await;
                        format!("afin {t}")
                    }
                };
                // what the step handed out
                let dials: Vec<String> = iroh_docs::verif::take_dials().iter().map(|(n, p, r)| format!("{}:{}:{}", hex(n.as_bytes()), hex(p.as_bytes()), reason_code(r))).collect();
                let raw_bcasts = iroh_docs::verif::take_broadcasts();
                if let Some((ns, syncing, expected)) = local_spec {
                    let b = &raw_bcasts;
                    let ok = if syncing { b.len() == 1 && b[0].0 == ns && !b[0].1 && b[0].2 == expected } else { b.is_empty() };
                    if view == "all" || view == "C04" { specs.push(Line::oracle("expect local-write-is-broadcast", if ok { "local-write-is-broadcast".to_string() } else { format!("local-write-broadcast-wrong:syncing={syncing}:messages={}", b.len()) })); }
                }
                let bcasts: Vec<String> = raw_bcasts.iter().map(|(n, nb, m)| format!("{}:{}:{}", hex(n.as_bytes()), *nb as u8, hex(m))).collect();
                let dls: Vec<String> = iroh_docs::verif::take_downloads().iter().map(|(n, h, p)| format!("{}:{}:{}", hex(n.as_bytes()), hex(h.as_bytes()), hex(p.as_bytes()))).collect();
                let mut evs = vec![];
                for (c, rx) in chans.iter() {
                    if let Some(rx) = rx {
                        let mut got = vec![];
                        while let Ok(ev) = rx.try_recv() {
                            got.push(show_event(&ev));
                        }
                        if !got.is_empty() {
                            evs.push(format!("{c}={}", got.join("+")));
                        }
                    }
                }
                let mut fields = vec![];
                if in_view(view, "dials") { fields.push(format!("dials={}", join_or(dials, false))); }
                if in_view(view, "bcasts") { fields.push(format!("bcasts={}", join_or(bcasts, false))); }
                if in_view(view, "downloads") { fields.push(format!("downloads={}", join_or(dls, false))); }
                if in_view(view, "events") { fields.push(format!("events={}", join_or(evs, true))); }
                if in_view(view, "reply") { fields.push(if reply.is_empty() { "-".to_string() } else { reply }); }
                let imp = fields.join(" ");
                lines.push(Line::model(format!("lstep 1 {tok}"), imp));
                lines.extend(specs);
                // the book-keeping after the step
                let (docs, topics, _) = coord.docs_snapshot(&ids);
                let snap = sorted_snapshot(&restrict(coord.downloads_snapshot(), &hashes, &ids));
                let mut slots = vec![];
                for n in ids.iter() {
                    for p in ps.iter() {
                        slots.push(match coord.snapshot(*n, *p) {
                            Some((st, r)) => format!("{st}{}", r as u8),
                            None => "--".to_string(),
                        });
                    }
                }
                let mut fields = vec![];
                if in_view(view, "docs") { fields.push(format!("docs={}", join_or(docs.iter().map(|(n, m)| format!("{}:{}", hex(n.as_bytes()), *m as u8)).collect(), true))); }
                if in_view(view, "topics") { fields.push(format!("topics={}", join_or(topics.iter().filter(|n| ids.contains(n)).map(|n| hex(n.as_bytes())).collect(), true))); }
                if in_view(view, "byhash") { fields.push(format!("byhash={}", join_or(snap.0, true))); }
                if in_view(view, "byns") { fields.push(format!("byns={}", join_or(snap.1, true))); }
                if in_view(view, "missing") { fields.push(format!("missing={}", join_or(snap.2, true))); }
                if in_view(view, "providers") { fields.push(format!("providers={}", join_or(snap.3, true))); }
                if in_view(view, "slots") { fields.push(format!("slots={}", join_or(slots, false))); }
                let state = fields.join(" ");
                lines.push(Line::model(format!("lstate 1 {}", watch.join(" ")), state));
                // the useful peers the store remembers (C17 at the engine)
                for k in 0..2 {
                    let peers = peers_of(sync, ids[k]).await;
                    let shown = if in_view(view, "peers") { format!("peers {}", join_or(peers.iter().map(|p| hex(p)).collect(), false)) } else { "peers".to_string() };
                    lines.push(Line::model(format!("lpeers 1 {}", hex(ids[k].as_bytes())), shown));
                }
            }
            // tidy up: leave the documents so that the store actor closes them
            for k in 0..2 {
                coord.leave(ids[k], true).await.ok();
            }
            let _ = id_str;
            Ok(())
        });
        iroh_docs::verif::set_dial_recording(false);
        iroh_docs::verif::set_live_recording(false);
        res?;
        Ok(lines)
    }
}

/// the useful peers the store remembers for a document (the request needs an open document)
async fn peers_of(sync: &SyncHandle, ns: NamespaceId) -> Vec<[u8; 32]> {
    if sync.open(ns, iroh_docs::actor::OpenOpts::default()).await.is_err() {
        return vec![];
    }
    let r = sync.get_sync_peers(ns).await.ok().flatten().unwrap_or_default();
    sync.close(ns).await.ok();
    r
}

type Snap = (Vec<(iroh_blobs::Hash, Vec<NamespaceId>)>, Vec<(NamespaceId, Vec<iroh_blobs::Hash>)>, Vec<iroh_blobs::Hash>, Vec<(iroh_blobs::Hash, Vec<PublicKey>)>);

/// the part of the book-keeping that belongs to this case's contents and documents
fn restrict(s: Snap, hashes: &[iroh_blobs::Hash], ids: &[NamespaceId]) -> Snap {
    (
        s.0.into_iter().filter(|(h, _)| hashes.contains(h)).collect(),
        s.1.into_iter().filter(|(n, _)| ids.contains(n)).collect(),
        s.2.into_iter().filter(|h| hashes.contains(h)).collect(),
        s.3.into_iter().filter(|(h, _)| hashes.contains(h)).collect(),
    )
}

fn sorted_snapshot(s: &Snap) -> (Vec<String>, Vec<String>, Vec<String>, Vec<String>) {
    let list = |v: Vec<String>| {
        let mut v = v;
        v.sort();
        v.join("+")
    };
    (
        s.0.iter().map(|(h, n)| format!("{}:{}", hex(h.as_bytes()), list(n.iter().map(|x| hex(x.as_bytes())).collect()))).collect(),
        s.1.iter().map(|(n, h)| format!("{}:{}", hex(n.as_bytes()), list(h.iter().map(|x| hex(x.as_bytes())).collect()))).collect(),
        s.2.iter().map(|h| hex(h.as_bytes())).collect(),
        s.3.iter().flat_map(|(h, n)| n.iter().map(move |p| format!("{}:{}", hex(h.as_bytes()), hex(p.as_bytes())))).collect(),
    )
}
