//! C03 — only authentic, well-formed, in-namespace, non-future entries are accepted.
//!
//! Validly signed entries and systematic tamperings, offered (a) through
//! `Replica::insert_remote_entry` and (b) at every position of crafted reconciliation messages
//! mixed with valid entries. Ground truth about authenticity is *by construction* (which key
//! signed which bytes), never by calling `verify`.

use iroh_docs::{
    sync::{ContentStatus, Record, RecordIdentifier},
    NamespaceSecret, SignedEntry,
};
use serde::{Deserialize, Serialize};

use crate::{c01::*, c02::gen_key, common::*, syncmsg::*, world::*};

#[derive(Clone, Copy, Debug, Serialize, Deserialize, PartialEq, Eq)]
pub enum Tamper {
    None,
    /// signatures of the honest entry kept, one content field changed afterwards
    FieldTs,
    FieldKey,
    FieldHash,
    FieldLen,
    FieldAuthor,
    /// entry validly signed for another document, offered to this replica
    ForeignDocument,
    /// content names this document, but the namespace signature is by another document's key
    WrongNamespaceKey,
    /// author signature by another author's key
    WrongAuthorKey,
    /// the two signatures exchanged
    SigSwap,
    /// both signatures taken from another (valid) entry of the same author
    SigFromOtherEntry,
    /// author id that is not a curve point
    InvalidAuthorPoint,
    /// honest entry with timestamp at the future bound +1 / +0 / -1
    FuturePlus1,
    FutureExact,
    FutureMinus1,
    /// honest entry with a timestamp far beyond the bound (wrap-around edges of 64-bit arithmetic)
    FutureFar(u8),
    /// honestly signed but malformed emptiness
    EmptyHashWithLen,
    HashWithZeroLen,
}

/// timestamps far in the future: edges at which `timestamp - now` or `now + bound` computed in
/// 64-bit (signed or unsigned) arithmetic would wrap
pub const FAR: [u64; 8] = [
    u64::MAX,
    u64::MAX - 1,
    1 << 63,
    (1 << 63) - 1,
    NOW + (1 << 63),
    NOW + (1 << 63) - 1,
    NOW + 365 * 24 * 3600 * 1_000_000,
    u64::MAX - SHIFT,
];

pub const TAMPERS: [Tamper; 21] = [
    Tamper::None, Tamper::FieldTs, Tamper::FieldKey, Tamper::FieldHash, Tamper::FieldLen, Tamper::FieldAuthor,
    Tamper::ForeignDocument, Tamper::WrongNamespaceKey, Tamper::WrongAuthorKey, Tamper::SigSwap,
    Tamper::SigFromOtherEntry, Tamper::InvalidAuthorPoint, Tamper::FuturePlus1, Tamper::FutureExact,
    Tamper::FutureMinus1, Tamper::EmptyHashWithLen, Tamper::HashWithZeroLen,
    Tamper::FutureFar(0), Tamper::FutureFar(2), Tamper::FutureFar(4), Tamper::FutureFar(6),
];

#[derive(Clone, Debug, Serialize, Deserialize)]
pub enum Op {
    /// valid setup entry
    Put { a: usize, key: Vec<u8>, c: Option<usize>, ts: u64 },
    /// a crafted entry, offered directly and inside a message at position `pos` among `n_valid`
    /// fresh valid entries, in a part with the given `have_local`, optionally with a second part
    Attack {
        a: usize, key: Vec<u8>, c: Option<usize>, ts: u64, tamper: Tamper, pos: usize, n_valid: usize, have_local: bool, two_parts: bool,
        /// the message also carries the honest entry the crafted one was made from (same author and key)
        #[serde(default)]
        twin: bool,
    },
}

pub struct C03 {
    pub keys: Keys,
    pub foreign: NamespaceSecret,
}

/// a crafted entry with its ground truth
pub struct Crafted {
    pub entry: SignedEntry,
    pub ns_ok: bool,
    pub au_ok: bool,
}

fn splice(sig_from: &SignedEntry, content_from: &SignedEntry) -> SignedEntry {
    let a = postcard::to_stdvec(sig_from).unwrap();
    let b = postcard::to_stdvec(content_from).unwrap();
    let mut v = a[..128].to_vec();
    v.extend_from_slice(&b[128..]);
    postcard::from_bytes(&v).expect("spliced entry decodes")
}

fn swap_sigs(e: &SignedEntry) -> SignedEntry {
    let a = postcard::to_stdvec(e).unwrap();
    let mut v = a[64..128].to_vec();
    v.extend_from_slice(&a[..64]);
    v.extend_from_slice(&a[128..]);
    postcard::from_bytes(&v).expect("swapped entry decodes")
}

impl C03 {
    pub fn new() -> Self {
        let mut keys = Keys::new(2, 3);
        let foreign = keys.namespaces.pop().unwrap();
        C03 { keys, foreign }
    }

    pub fn craft(&self, a: usize, key: &[u8], c: Option<usize>, ts: u64, tamper: Tamper) -> Crafted {
        let ns = &self.keys.namespaces[0];
        let author = &self.keys.authors[a];
        let other_author = &self.keys.authors[(a + 1) % self.keys.authors.len()];
        let honest = make_entry(ns, author, key, c, ts);
        let rec = |h: iroh_blobs::Hash, l: u64, t: u64| Record::new(h, l, t);
        let (hash, len) = match c {
            Some(i) => content(i),
            None => (iroh_blobs::Hash::EMPTY, 0),
        };
        let with = |e: SignedEntry, ns_ok: bool, au_ok: bool| Crafted { entry: e, ns_ok, au_ok };
        match tamper {
            Tamper::None => with(honest, true, true),
            Tamper::FieldTs => with(splice(&honest, &make_entry(ns, author, key, c, ts + 1)), false, false),
            Tamper::FieldKey => {
                let mut k2 = key.to_vec();
                k2.push(0x7A);
                with(splice(&honest, &make_entry(ns, author, &k2, c, ts)), false, false)
            }
            Tamper::FieldHash => {
                let (h2, _) = content(c.map(|i| i + 1).unwrap_or(0));
                with(splice(&honest, &SignedEntry::from_parts(ns, author, key, rec(h2, len.max(1), ts))), false, false)
            }
            Tamper::FieldLen => with(splice(&honest, &SignedEntry::from_parts(ns, author, key, rec(hash, len + 1, ts))), false, false),
            Tamper::FieldAuthor => with(splice(&honest, &make_entry(ns, other_author, key, c, ts)), false, false),
            Tamper::ForeignDocument => with(make_entry(&self.foreign, author, key, c, ts), true, true),
            Tamper::WrongNamespaceKey => {
                // author signature honest (same bytes), namespace signature by the foreign key over the same bytes
                let id = RecordIdentifier::new(ns.id(), author.id(), key);
                let entry = iroh_docs::Entry::new(id, rec(hash, len, ts));
                let by_foreign = SignedEntry::from_entry(entry, &self.foreign, author);
                with(by_foreign, false, true)
            }
            Tamper::WrongAuthorKey => {
                let id = RecordIdentifier::new(ns.id(), author.id(), key);
                let entry = iroh_docs::Entry::new(id, rec(hash, len, ts));
                with(SignedEntry::from_entry(entry, ns, other_author), true, false)
            }
            Tamper::SigSwap => with(swap_sigs(&honest), false, false),
            Tamper::SigFromOtherEntry => {
                let mut k2 = key.to_vec();
                k2.push(0x7B);
                with(splice(&make_entry(ns, author, &k2, c, ts), &honest), false, false)
            }
            Tamper::InvalidAuthorPoint => {
                // y = 2 is not the y-coordinate of a curve point
                let mut bad = [0u8; 32];
                bad[0] = 2;
                let id = RecordIdentifier::new(ns.id(), iroh_docs::AuthorId::from(&bad), key);
                let entry = iroh_docs::Entry::new(id, rec(hash, len, ts));
                // namespace signature is genuine over these bytes; the author signature cannot be
                with(SignedEntry::from_entry(entry, ns, author), true, false)
            }
            Tamper::FuturePlus1 => with(make_entry(ns, author, key, c, NOW + SHIFT + 1), true, true),
            Tamper::FutureExact => with(make_entry(ns, author, key, c, NOW + SHIFT), true, true),
            Tamper::FutureMinus1 => with(make_entry(ns, author, key, c, NOW + SHIFT - 1), true, true),
            Tamper::FutureFar(i) => with(make_entry(ns, author, key, c, FAR[i as usize % FAR.len()]), true, true),
            Tamper::EmptyHashWithLen => with(SignedEntry::from_parts(ns, author, key, rec(iroh_blobs::Hash::EMPTY, 5, ts)), true, true),
            Tamper::HashWithZeroLen => with(SignedEntry::from_parts(ns, author, key, rec(content(0).0, 0, ts)), true, true),
        }
    }

    /// token with ground truth by construction
    fn tok(&self, crafted: &[(SignedEntry, bool, bool)], e: &SignedEntry) -> String {
        for (c, ns_ok, au_ok) in crafted {
            if c == e {
                let honest = *ns_ok && *au_ok;
                return with_fp(entry_tok(e, if honest { 0 } else { sig_tag(e) }, *ns_ok, *au_ok), e);
            }
        }
        with_fp(honest_tok(e), e)
    }
}

impl Property for C03 {
    type Op = Op;
    fn id(&self) -> &'static str {
        "C03"
    }
    fn rule(&self) -> String {
        "a replica state of 0-6 valid entries, then 1-4 attacks: a validly signed entry or one of 16 tamperings (single field altered after signing, signatures swapped or taken from another entry, foreign document, wrong namespace/author key, non-curve-point author id, timestamps at the future bound -1/0/+1 and far beyond it (2^63, 2^64-1, now+2^63 and neighbours, now + one year), the two malformed emptiness combinations), offered directly and at every position of a crafted message among 0-3 valid entries, in parts with have_local true/false, one or two parts; non-trivial = an attack with a tampering other than None; distinct = distinct operation lists".into()
    }
    fn corpus(&self) -> Vec<(String, Vec<Op>)> {
        let atk = |t: Tamper, pos: usize, n_valid: usize, have_local: bool| Op::Attack { a: 0, key: b"k".to_vec(), c: Some(0), ts: 5, tamper: t, pos, n_valid, have_local, two_parts: false, twin: false };
        let mut v = vec![
            // F3: malformed marker accepted only on the reconciliation path
            ("f3-empty-hash-with-len-in-message".into(), vec![atk(Tamper::EmptyHashWithLen, 0, 1, true)]),
            ("f3-hash-with-zero-len-in-message".into(), vec![atk(Tamper::HashWithZeroLen, 1, 2, false)]),
        ];
        for t in TAMPERS {
            v.push((format!("each-tamper-{t:?}"), vec![
                Op::Put { a: 0, key: b"a".to_vec(), c: Some(1), ts: 4 },
                atk(t, 1, 2, false),
            ]));
        }
        v
    }
    fn generate(&self, rng: &mut Rng, _i: usize, thorough: bool) -> Vec<Op> {
        let mut ops = vec![];
        for _ in 0..rng.range(0, 6) {
            ops.push(Op::Put { a: rng.below(3), key: gen_key(rng), c: if rng.chance(1, 4) { None } else { Some(rng.below(3)) }, ts: *rng.pick(&crate::c02::TIMES) });
        }
        for _ in 0..rng.range(1, if thorough { 8 } else { 4 }) {
            let n_valid = rng.below(4);
            // a third of the crafted entries re-use an entry this replica has already verified and
            // accepted (same author, key, content, timestamp — and therefore the same signatures) with one
            // field changed afterwards: anything that remembers "these signatures were fine" is exposed
            let replayed: Option<(usize, Vec<u8>, Option<usize>, u64)> = {
                let puts: Vec<_> = ops.iter().filter_map(|o| match o { Op::Put { a, key, c, ts } => Some((*a, key.clone(), *c, *ts)), _ => None }).collect();
                if !puts.is_empty() && rng.chance(1, 3) { Some(rng.pick(&puts).clone()) } else { None }
            };
            if let Some((a, key, c, ts)) = replayed {
                ops.push(Op::Attack {
                    a, key, c, ts,
                    tamper: *rng.pick(&[Tamper::FieldTs, Tamper::FieldTs, Tamper::FieldKey, Tamper::FieldHash, Tamper::FieldLen, Tamper::FieldAuthor]),
                    pos: rng.below(n_valid + 1),
                    n_valid,
                    have_local: rng.chance(1, 2),
                    two_parts: rng.chance(1, 3),
                    twin: rng.chance(1, 3),
                });
                continue;
            }
            ops.push(Op::Attack {
                a: rng.below(3),
                key: gen_key(rng),
                c: if rng.chance(1, 4) { None } else { Some(rng.below(3)) },
                ts: *rng.pick(&[5u64, 9, 10, 11, 12]),
                tamper: if rng.chance(1, 8) { Tamper::None } else if rng.chance(1, 12) { Tamper::FutureFar(rng.below(FAR.len()) as u8) } else { *rng.pick(&TAMPERS) },
                pos: rng.below(n_valid + 1),
                n_valid,
                have_local: rng.chance(1, 2),
                two_parts: rng.chance(1, 3),
                twin: rng.chance(1, 3),
            });
        }
        ops
    }
    fn execute(&self, ops: &[Op]) -> anyhow::Result<Vec<Line>> {
        let rt = rt();
        set_clock(NOW);
        let ns = &self.keys.namespaces[0];
        let nsid = ns.id();
        let nshex = hex(nsid.as_bytes());
        // three twin replicas: 1 = direct path, 2 = message path, 3 = message without the crafted entry
        let mut stores = [RealStore::new(false)?, RealStore::new(false)?, RealStore::new(false)?];
        let mut lines = vec![];
        for (i, s) in stores.iter_mut().enumerate() {
            s.store.new_replica(ns.clone())?;
            s.store.close_replica(nsid);
            lines.push(Line::model(format!("tnew {}", i + 1), "ok"));
            lines.push(Line::model(format!("tns {} {nshex} 1 {}", i + 1, hex(&ns.to_bytes())), "inserted"));
        }
        // a fourth twin behind the store actor (`SyncHandle::insert_remote`, the gossip path): it gets
        // everything twin 1 gets
        iroh_docs::verif::set_clock_micros(Some(NOW));
        let actor = {
            let mut st = iroh_docs::store::Store::memory();
            st.new_replica(ns.clone())?;
            st.close_replica(nsid);
            iroh_docs::actor::SyncHandle::spawn(st, None, "c03".into())
        };
        rt.block_on(actor.open(nsid, iroh_docs::actor::OpenOpts::default().sync()))?;
        let mut crafted_all: Vec<(SignedEntry, bool, bool)> = vec![];
        let mut fresh = 0u32;
        for op in ops {
            match op {
                Op::Put { a, key, c, ts } => {
                    let e = make_entry(ns, &self.keys.authors[*a], key, *c, *ts);
                    for (i, s) in stores.iter_mut().enumerate() {
                        let mut r = s.store.open_replica(&nsid)?;
                        let res = rt.block_on(r.insert_remote_entry(e.clone(), PEER, ContentStatus::Missing));
                        drop(r);
                        s.store.close_replica(nsid);
                        lines.push(Line::model(format!("tremote {} {nshex} {NOW} {}", i + 1, honest_fp_tok(&e)), insert_result(res)));
                    }
                    let _ = rt.block_on(actor.insert_remote(nsid, e.clone(), PEER, ContentStatus::Missing));
                }
                Op::Attack { a, key, c, ts, tamper, pos, n_valid, have_local, two_parts, twin } => {
                    let cr = self.craft(*a, key, *c, *ts, *tamper);
                    crafted_all.push((cr.entry.clone(), cr.ns_ok, cr.au_ok));
                    let x = cr.entry.clone();
                    let xtok = self.tok(&crafted_all, &x);
                    // (a) direct path on replica 1
                    let direct_accepted;
                    {
                        let mut side = Side::open(1, &mut stores[0].store, nsid, PEER_A)?;
                        let res = rt.block_on(side.replica.insert_remote_entry(x.clone(), PEER_B, ContentStatus::Complete));
                        let evs = drain_remote(&side.rx);
                        direct_accepted = evs.iter().any(|(e, _, _, _)| *e == x);
                        let res_line = insert_result(res);
                        drop(side);
                        stores[0].store.close_replica(nsid);
                        lines.push(Line::model(format!("tremote 1 {nshex} {NOW} {xtok}"), res_line.clone()));
                        // specification: accepted (announced / counted as inserted) only if valid
                        lines.push(Line::oracle(
                            format!("simplies {} {nshex} {NOW} {xtok}", (direct_accepted || res_line.starts_with("inserted")) as u8),
                            "ok",
                        ));
                    }
                    // (a') the same entry through the store actor: accepted there (acknowledged, or counted
                    // as a new remote entry) only if valid, and exactly when the direct path accepted it
                    {
                        let m = actor.metrics().clone();
                        let before = (m.new_entries_remote.get(), m.new_entries_remote_size.get());
                        let res = rt.block_on(actor.insert_remote(nsid, x.clone(), PEER_B, ContentStatus::Complete));
                        let after = (m.new_entries_remote.get(), m.new_entries_remote_size.get());
                        let counted = after != before;
                        lines.push(Line::oracle(format!("simplies {} {nshex} {NOW} {xtok}", (res.is_ok() || counted) as u8), "ok"));
                        let agree = res.is_ok() == direct_accepted && counted == direct_accepted;
                        lines.push(Line::oracle("sconst actor-path-agrees", if agree { "actor-path-agrees".to_string() } else { format!("direct={direct_accepted} actor-acknowledged={} actor-counted={counted}", res.is_ok()) }));
                    }
                    // (b) inside a message on replica 2, (c) the same message without it on replica 3
                    let mut valid: Vec<SignedEntry> = vec![];
                    for _ in 0..*n_valid {
                        fresh += 1;
                        let k = format!("fresh-{fresh}");
                        valid.push(make_entry(ns, &self.keys.authors[(fresh as usize) % 3], k.as_bytes(), Some(fresh as usize % 3), 7));
                    }
                    if *twin {
                        // the honest entry under the same author and key travels in the same message (before or
                        // after the crafted one, as `pos` falls)
                        let at = (fresh as usize) % (valid.len() + 1);
                        valid.insert(at, make_entry(ns, &self.keys.authors[*a], key, *c, *ts));
                    }
                    let mut with_x: Vec<(SignedEntry, ContentStatus)> = valid.iter().cloned().map(|e| (e, ContentStatus::Complete)).collect();
                    with_x.insert((*pos).min(with_x.len()), (x.clone(), ContentStatus::Incomplete));
                    let without_x: Vec<(SignedEntry, ContentStatus)> = valid.iter().cloned().map(|e| (e, ContentStatus::Complete)).collect();
                    let anchor = RecordIdentifier::new(nsid, self.keys.authors[0].id(), b"");
                    let build = |vals: &[(SignedEntry, ContentStatus)]| -> MMsg {
                        let rng = MRange { x: anchor.clone(), y: anchor.clone() };
                        if *two_parts && vals.len() >= 2 {
                            let (l, r) = vals.split_at(vals.len() / 2);
                            MMsg { parts: vec![
                                MPart::RangeItem(MItem { range: rng.clone(), values: l.to_vec(), have_local: *have_local }),
                                MPart::RangeItem(MItem { range: rng, values: r.to_vec(), have_local: true }),
                            ] }
                        } else {
                            MMsg { parts: vec![MPart::RangeItem(MItem { range: rng, values: vals.to_vec(), have_local: *have_local })] }
                        }
                    };
                    let tokf: EntryTok = &|e| self.tok(&crafted_all, e);
                    let mut outcomes = vec![];
                    for (idx, vals) in [(1usize, &with_x), (2, &without_x)] {
                        let m = build(vals);
                        let real = match m.to_real() {
                            Ok(r) => r,
                            Err(e) => {
                                lines.push(Line::oracle("sconst message-decodes", format!("message-does-not-decode:{e}")));
                                continue;
                            }
                        };
                        let mut side = Side::open(idx + 1, &mut stores[idx].store, nsid, PEER_A)?;
                        let reply = rt.block_on(side.replica.sync_process_message(real, PEER_B, &mut side.outcome))?;
                        let evs = drain_remote(&side.rx);
                        let ins: Vec<_> = evs.iter().map(|(e, s, _, _)| (e.clone(), *s)).collect();
                        let line = step_line(reply.as_ref().map(MMsg::from_real).as_ref(), &ins, &side.outcome, tokf);
                        drop(side);
                        stores[idx].store.close_replica(nsid);
                        lines.push(Line::model(format!("oreset {}", idx + 1), "ok"));
                        lines.push(Line::model(format!("tproc {} {nshex} {NOW} 1 2 {}", idx + 1, msg_tok(&m, tokf)), line));
                        outcomes.push((ins, reply.map(|r| MMsg::from_real(&r))));
                    }
                    if outcomes.len() == 2 {
                        let msg_accepted = outcomes[0].0.iter().any(|(e, _)| *e == x);
                        lines.push(Line::oracle(format!("simplies {} {nshex} {NOW} {xtok}", msg_accepted as u8), "ok"));
                        // identical on both paths (the twins were equal before the attack; a valid
                        // entry may be rejected on both as superseded)
                        lines.push(Line::oracle("sconst paths-agree", if msg_accepted == direct_accepted { "paths-agree".to_string() } else { format!("direct={direct_accepted} message={msg_accepted}") }));
                        // a rejected entry changes nothing and the rest of the message is processed
                        if !msg_accepted {
                            let d2 = crate::c08::dump_fp(&mut stores[1].store, nsid)?;
                            let d3 = crate::c08::dump_fp(&mut stores[2].store, nsid)?;
                            let same_ins = outcomes[0].0 == outcomes[1].0;
                            lines.push(Line::oracle("sconst rest-processed", if d2 == d3 && same_ins { "rest-processed".to_string() } else { "rejected-entry-changed-the-outcome".to_string() }));
                        } else {
                            // bring twin 3 up to date so that the twins stay equal
                            let mut r = stores[2].store.open_replica(&nsid)?;
                            let res = rt.block_on(r.insert_remote_entry(x.clone(), PEER, ContentStatus::Missing));
                            drop(r);
                            stores[2].store.close_replica(nsid);
                            lines.push(Line::model(format!("tremote 3 {nshex} {NOW} {xtok}"), insert_result(res)));
                        }
                    }
                    // … and twin 1 gets the fresh valid entries of the message
                    for e in &valid {
                        let mut r = stores[0].store.open_replica(&nsid)?;
                        let res = rt.block_on(r.insert_remote_entry(e.clone(), PEER, ContentStatus::Missing));
                        drop(r);
                        stores[0].store.close_replica(nsid);
                        lines.push(Line::model(format!("tremote 1 {nshex} {NOW} {}", honest_fp_tok(e)), insert_result(res)));
                        let _ = rt.block_on(actor.insert_remote(nsid, e.clone(), PEER, ContentStatus::Missing));
                    }
                    // keep the three model stores and real stores aligned: dumps
                    for (i, s) in stores.iter_mut().enumerate() {
                        let mut toks = vec![];
                        for e in s.store.get_many(nsid, iroh_docs::store::Query::all().include_empty())? {
                            let e = e?;
                            toks.push(self.tok(&crafted_all, &e));
                        }
                        if i < 2 {
                            lines.push(Line::model(format!("tquery {} {nshex} flat-ak * any - 0 1 0", i + 1), entries_line(&toks)));
                        }
                    }
                }
            }
        }
        // the store behind the actor ends up equal to twin 1
        let mut st = rt.block_on(actor.shutdown())?;
        let d1 = crate::c08::dump_fp(&mut stores[0].store, nsid)?;
        let d4 = crate::c08::dump_fp(&mut st, nsid)?;
        lines.push(Line::oracle("sconst actor-store-equals-direct-store", if d1 == d4 { "actor-store-equals-direct-store" } else { "actor-store-differs" }));
        Ok(lines)
    }
    fn features(&self, ops: &[Op], lines: &[Line]) -> Vec<String> {
        let mut f = vec![];
        for o in ops {
            if let Op::Attack { twin: true, .. } = o {
                f.push("honest-twin-in-the-same-message".to_string());
            }
            if let Op::Attack { tamper, have_local, two_parts, .. } = o {
                f.push(format!("tamper:{tamper:?}"));
                f.push(format!("have_local:{have_local}"));
                f.push(format!("two_parts:{two_parts}"));
            }
        }
        for l in lines {
            if l.op.starts_with("tremote 1") {
                f.push(format!("direct:{}", l.imp.split(' ').next().unwrap()));
            }
        }
        f.sort();
        f.dedup();
        f
    }
    fn nontrivial(&self, ops: &[Op], _lines: &[Line]) -> bool {
        ops.iter().any(|o| matches!(o, Op::Attack { tamper, .. } if *tamper != Tamper::None))
    }
}
