//! C08 — reconciliation behaves the same on the redb store as on a plain ordered map.
//!
//! The same session is run on four backends: real replicas on in-memory redb, on file-backed redb,
//! the in-crate ordered-map backend driven by the crate's own `process_message` (hook H2), and the
//! Lean models (`tableOps` = model of the tables, `mapOps` = the ordered-map definitions). All
//! transcripts must be equal. Range scans (x<y, x>y wrap-around, x=y), first-key lookup and range
//! fingerprints are additionally probed with crafted fingerprint parts.

use iroh_docs::{
    sync::{ContentStatus, RecordIdentifier},
    verif::MapStore,
};
use serde::{Deserialize, Serialize};

use crate::{c01::*, c02::gen_key, common::*, syncmsg::*, world::*};

#[derive(Clone, Debug, Serialize, Deserialize)]
pub enum Op {
    Cfg { max_set: usize, split: usize },
    Put { side: u8, a: usize, key: Vec<u8>, c: Option<usize>, ts: u64 },
    /// send `[RangeFingerprint(range, fp)]` to side A on every backend; `empty_fp` asks for the
    /// whole range (recursion anchor), otherwise a bogus fingerprint forces a split
    Probe { xa: usize, xk: Vec<u8>, ya: usize, yk: Vec<u8>, same: bool, empty_fp: bool },
    /// run the session A → B
    Session,
    /// the reconciled document is removed from the stores of one side and created again (empty); the
    /// store values stay alive, so anything a store remembers about the old document is still there
    Recreate { side: u8 },
    /// an entry of another document held in the same store (`which`: 0 = the document with the
    /// smaller id, 1 = the one with the greater id); the ordered map knows nothing of it
    Foreign { side: u8, which: u8, a: usize, key: Vec<u8>, c: Option<usize>, ts: u64 },
}

pub struct C08 {
    pub keys: Keys,
}

impl C08 {
    pub fn new() -> Self {
        // three real documents; the one reconciled is one whose id ends in 0xFF when there is one
        // (its byte-order successor then needs a carry), moved to index 1
        let mut keys = Keys::new(3, 3);
        if let Some(i) = keys.namespaces.iter().position(|n| n.id().as_bytes()[31] == 0xFF) {
            keys.namespaces.swap(1, i);
        }
        C08 { keys }
    }
}

fn lines_of_step(reply: Option<&MMsg>, inserted: &[(iroh_docs::SignedEntry, ContentStatus)], tok: EntryTok) -> String {
    format!(
        "reply {} ins {}",
        reply.map(|m| msg_tok(m, tok)).unwrap_or("none".into()),
        values_tok(inserted, tok)
    )
}

/// the ids just below and just above `id` in byte order (none at the ends of the id space)
fn neighbours(id: &[u8; 32]) -> [Option<[u8; 32]>; 2] {
    let mut pred = *id;
    let mut has_pred = false;
    for b in pred.iter_mut().rev() {
        if *b == 0 {
            *b = 0xFF;
        } else {
            *b -= 1;
            has_pred = true;
            break;
        }
    }
    let mut succ = *id;
    let mut has_succ = false;
    for b in succ.iter_mut().rev() {
        if *b == 0xFF {
            *b = 0;
        } else {
            *b += 1;
            has_succ = true;
            break;
        }
    }
    [if has_pred { Some(pred) } else { None }, if has_succ { Some(succ) } else { None }]
}

impl Property for C08 {
    type Op = Op;
    fn id(&self) -> &'static str {
        "C08"
    }
    fn rule(&self) -> String {
        "pairs of entry sets (0-10 entries each, 3 authors, edge keys, ties, deletion markers; one side empty in a sixth of the cases) in stores that also hold 0-5 entries of other documents (two with real keys and the two ids adjacent in byte order to the document's own, which ends in 0xFF), (split, max set) from {2,3,4,5}x{0,1,2,4}; 0-6 range probes per case with endpoints drawn from stored ids, their neighbours and absent ids in all three shapes (x<y, x>y, x=y) with empty and bogus fingerprints; then a full session; each on memory redb, file redb, the in-crate BTreeMap backend and both Lean models; non-trivial = at least one probe answered with entries or a session of >= 3 messages".into()
    }
    fn corpus(&self) -> Vec<(String, Vec<Op>)> {
        let p = |side: u8, a: usize, k: &[u8], c: Option<usize>, ts: u64| Op::Put { side, a, key: k.to_vec(), c, ts };
        vec![
            ("rejoin-after-removal".into(), vec![Op::Cfg { max_set: 1, split: 2 },
                p(2, 0, b"a", Some(0), 5), p(2, 1, b"b", Some(1), 5), Op::Session,
                Op::Recreate { side: 0 }, Op::Session,
                Op::Recreate { side: 1 }, Op::Session]),
            ("wraparound-probe".into(), vec![Op::Cfg { max_set: 1, split: 2 },
                p(0, 0, b"a", Some(0), 5), p(0, 1, b"b", Some(1), 5), p(0, 2, b"c", Some(2), 5), p(0, 1, b"", Some(0), 5),
                Op::Probe { xa: 2, xk: b"b".to_vec(), ya: 0, yk: b"b".to_vec(), same: false, empty_fp: true },
                Op::Probe { xa: 2, xk: b"b".to_vec(), ya: 0, yk: b"b".to_vec(), same: false, empty_fp: false },
                Op::Probe { xa: 1, xk: b"".to_vec(), ya: 1, yk: b"".to_vec(), same: true, empty_fp: false },
                Op::Session]),
            ("ff-prefix-prune-during-session".into(), vec![Op::Cfg { max_set: 1, split: 2 },
                p(0, 0, &[1, 255], None, 9), p(1, 0, &[2], Some(0), 5), p(1, 0, &[1, 255, 3], Some(1), 5), p(1, 0, &[1, 255, 255], Some(1), 5),
                Op::Session]),
        ]
    }
    fn generate(&self, rng: &mut Rng, _i: usize, thorough: bool) -> Vec<Op> {
        let default_cfg = rng.chance(1, 2);
        let mut ops = vec![Op::Cfg {
            max_set: if default_cfg { 1 } else { *rng.pick(&[0usize, 1, 2, 4]) },
            split: if default_cfg { 2 } else { *rng.pick(&[2usize, 3, 4, 5]) },
        }];
        let max = if thorough { 18 } else { 10 };
        let mut keys_used: Vec<(usize, Vec<u8>)> = vec![];
        // other documents in the same stores
        for _ in 0..rng.range(0, 5) {
            ops.push(Op::Foreign { side: rng.below(3) as u8, which: rng.below(4) as u8, a: rng.below(3), key: gen_key(rng), c: if rng.chance(1, 4) { None } else { Some(rng.below(3)) }, ts: *rng.pick(&crate::c02::TIMES) });
        }
        let empty_a = rng.chance(1, 6);
        for (side, n) in [(0u8, if empty_a { 0 } else { rng.range(0, max) }), (1, rng.range(0, max)), (2, if empty_a { 0 } else { rng.range(0, 4) })] {
            for _ in 0..n {
                let a = rng.below(3);
                let key = gen_key(rng);
                keys_used.push((a, key.clone()));
                ops.push(Op::Put { side, a, key, c: if rng.chance(1, 4) { None } else { Some(rng.below(3)) }, ts: *rng.pick(&crate::c02::TIMES) });
            }
        }
        for _ in 0..rng.range(0, 6) {
            let mut pick = |rng: &mut Rng| -> (usize, Vec<u8>) {
                if !keys_used.is_empty() && rng.chance(3, 4) {
                    let (a, mut k) = rng.pick(&keys_used).clone();
                    match rng.below(4) {
                        0 => k.push(0),
                        1 => { k.pop(); }
                        _ => {}
                    }
                    (a, k)
                } else {
                    (rng.below(3), gen_key(rng))
                }
            };
            let (xa, xk) = pick(rng);
            let (ya, yk) = pick(rng);
            ops.push(Op::Probe { xa, xk, ya, yk, same: rng.chance(1, 5), empty_fp: rng.chance(1, 2) });
        }
        ops.push(Op::Session);
        if rng.chance(1, 4) {
            // one side loses the document and joins again; the other still holds everything
            ops.push(Op::Recreate { side: rng.below(2) as u8 });
            for _ in 0..rng.below(3) {
                ops.push(Op::Put { side: rng.below(3) as u8, a: rng.below(3), key: gen_key(rng), c: if rng.chance(1, 4) { None } else { Some(rng.below(3)) }, ts: *rng.pick(&crate::c02::TIMES) });
            }
            ops.push(Op::Session);
        }
        if rng.chance(1, 12) {
            // long keys: every key behind a common 255-byte prefix
            for o in ops.iter_mut() {
                match o {
                    Op::Put { key, .. } | Op::Foreign { key, .. } => *key = crate::c02::long_key(key),
                    Op::Probe { xk, yk, .. } => {
                        *xk = crate::c02::long_key(xk);
                        *yk = crate::c02::long_key(yk);
                    }
                    _ => {}
                }
            }
        }
        ops
    }
    fn execute(&self, ops: &[Op]) -> anyhow::Result<Vec<Line>> {
        let (max_set, split) = match ops.first() {
            Some(Op::Cfg { max_set, split }) => (*max_set, *split),
            _ => (1, 2),
        };
        let rt = rt();
        set_clock(NOW);
        let ns = &self.keys.namespaces[1];
        let nsid = ns.id();
        let nshex = hex(nsid.as_bytes());
        let tok: EntryTok = &|e| with_fp(stored_tok(e), e);
        // backends: [mem, file] x [A, B], and two MapStores
        let mut mem = [RealStore::new(false)?, RealStore::new(false)?];
        let mut fil = [RealStore::new(true)?, RealStore::new(true)?];
        let mut maps = [MapStore::new(), MapStore::new()];
        let mut lines = vec![];
        for sid in [1, 2] {
            lines.push(Line::model(format!("tnew {sid}"), "ok"));
            lines.push(Line::model(format!("tns {sid} {nshex} 1 {}", hex(&ns.to_bytes())), "inserted"));
            lines.push(Line::model(format!("new {}", sid + 10), "ok"));
        }
        for s in mem.iter_mut().chain(fil.iter_mut()) {
            s.store.new_replica(ns.clone())?;
            s.store.close_replica(nsid);
        }
        // the neighbouring documents exist in every store (and in the table model): two real ones
        // and the two ids next to the document in byte order (hand-picked, populated through H6)
        for w in [0usize, 2] {
            let other = &self.keys.namespaces[w];
            for s in mem.iter_mut().chain(fil.iter_mut()) {
                s.store.new_replica(other.clone())?;
                s.store.close_replica(other.id());
            }
            for sid in [1, 2] {
                lines.push(Line::model(format!("tns {sid} {} 1 {}", hex(other.id().as_bytes()), hex(&other.to_bytes())), "inserted"));
            }
        }
        let raw_ns = neighbours(nsid.as_bytes());
        for raw in raw_ns.iter().flatten() {
            for s in mem.iter_mut().chain(fil.iter_mut()) {
                s.store.import_namespace(iroh_docs::sync::Capability::Read(iroh_docs::NamespaceId::from(raw)))?;
            }
            for sid in [1, 2] {
                lines.push(Line::model(format!("tns {sid} {} 2 {}", hex(raw), hex(raw)), "inserted"));
            }
        }
        iroh_docs::verif::set_thread_sync_config(Some((max_set, split)));
        let res = (|| -> anyhow::Result<()> {
            for op in ops {
                match op {
                    Op::Cfg { .. } => {}
                    Op::Put { side, a, key, c, ts } => {
                        let e = make_entry(ns, &self.keys.authors[*a], key, *c, *ts);
                        for i in 0..2usize {
                            if *side == 2 || *side as usize == i {
                                let mut outs = vec![];
                                for s in [&mut mem[i], &mut fil[i]] {
                                    let mut r = s.store.open_replica(&nsid)?;
                                    let res = rt.block_on(r.insert_remote_entry(e.clone(), PEER, ContentStatus::Missing));
                                    drop(r);
                                    s.store.close_replica(nsid);
                                    outs.push(insert_result(res));
                                }
                                let m = match maps[i].put(e.clone()) {
                                    Some(n) => format!("inserted {n}"),
                                    None => "notinserted".to_string(),
                                };
                                lines.push(Line::model(format!("tput {} {}", i + 1, honest_fp_tok(&e)), outs[0].clone()));
                                // the ordered-map definitions of put (specification of the primitives)
                                lines.push(Line::oracle(format!("put {} {}", i + 11, honest_fp_tok(&e)), outs[0].clone()));
                                let same = outs[0] == outs[1] && outs[0] == m;
                                lines.push(Line::oracle("sconst backends-agree", if same { "backends-agree".to_string() } else { format!("differ mem={} file={} map={}", outs[0], outs[1], m) }));
                            }
                        }
                    }
                    Op::Foreign { side, which, a, key, c, ts } if *which >= 2 => {
                        // a hand-picked neighbour id: predecessor (2) or successor (3) in byte order
                        let Some(raw) = raw_ns[(*which - 2) as usize % 2] else { continue };
                        let e = crate::storeops::raw_entry(&self.keys, &raw, self.keys.authors[*a].id().as_bytes(), key, *c, *ts);
                        for i in 0..2usize {
                            if *side == 2 || *side as usize == i {
                                let mut outs = vec![];
                                for s in [&mut mem[i], &mut fil[i]] {
                                    outs.push(match s.store.verif_put_unvalidated(e.clone())? {
                                        Some(k) => format!("inserted {k}"),
                                        None => "notinserted".to_string(),
                                    });
                                }
                                lines.push(Line::model(format!("tput {} {}", i + 1, with_fp(stored_tok(&e), &e)), outs[0].clone()));
                                let same = outs[0] == outs[1];
                                lines.push(Line::oracle("sconst backends-agree", if same { "backends-agree".to_string() } else { format!("differ mem={} file={}", outs[0], outs[1]) }));
                            }
                        }
                    }
                    Op::Foreign { side, which, a, key, c, ts } => {
                        let other = &self.keys.namespaces[if *which == 0 { 0 } else { 2 }];
                        let e = make_entry(other, &self.keys.authors[*a], key, *c, *ts);
                        for i in 0..2usize {
                            if *side == 2 || *side as usize == i {
                                let mut outs = vec![];
                                for s in [&mut mem[i], &mut fil[i]] {
                                    let mut r = s.store.open_replica(&other.id())?;
                                    let res = rt.block_on(r.insert_remote_entry(e.clone(), PEER, ContentStatus::Missing));
                                    drop(r);
                                    s.store.close_replica(other.id());
                                    outs.push(insert_result(res));
                                }
                                lines.push(Line::model(format!("tput {} {}", i + 1, honest_fp_tok(&e)), outs[0].clone()));
                                let same = outs[0] == outs[1];
                                lines.push(Line::oracle("sconst backends-agree", if same { "backends-agree".to_string() } else { format!("differ mem={} file={}", outs[0], outs[1]) }));
                            }
                        }
                    }
                    Op::Probe { xa, xk, ya, yk, same, empty_fp } => {
                        let x = RecordIdentifier::new(nsid, self.keys.authors[*xa].id(), xk);
                        let y = if *same { x.clone() } else { RecordIdentifier::new(nsid, self.keys.authors[*ya].id(), yk) };
                        let fp = if *empty_fp { *blake3::hash(&[]).as_bytes() } else { [0x5A; 32] };
                        let probe = MMsg { parts: vec![MPart::RangeFingerprint(MFp { range: MRange { x, y }, fingerprint: fp })] };
                        let real = probe.to_real()?;
                        let mut outs = vec![];
                        for s in [&mut mem[0], &mut fil[0]] {
                            let mut side = Side::open(1, &mut s.store, nsid, PEER_A)?;
                            let reply = rt.block_on(side.replica.sync_process_message(real.clone(), PEER_B, &mut side.outcome))?;
                            let ins: Vec<_> = drain_remote(&side.rx).into_iter().map(|(e, s, _, _)| (e, s)).collect();
                            outs.push(lines_of_step(reply.as_ref().map(MMsg::from_real).as_ref(), &ins, tok));
                            drop(side);
                            s.store.close_replica(nsid);
                        }
                        let (reply, ins) = rt.block_on(maps[0].process_message(nsid, real.clone()));
                        let ins: Vec<_> = ins.into_iter().map(|e| (e, ContentStatus::Missing)).collect();
                        let m = lines_of_step(reply.as_ref().map(MMsg::from_real).as_ref(), &ins, tok);
                        let ptok = msg_tok(&probe, tok);
                        lines.push(Line::model(format!("tprocplain 1 {nshex} {NOW} {max_set} {split} {ptok}"), outs[0].clone()));
                        lines.push(Line::oracle(format!("mproc 11 {nshex} {NOW} {max_set} {split} {ptok}"), outs[0].clone()));
                        let same = outs[0] == outs[1] && outs[0] == m;
                        lines.push(Line::oracle("sconst backends-agree", if same { "backends-agree".to_string() } else { format!("differ mem=[{}] file=[{}] map=[{}]", outs[0], outs[1], m) }));
                    }
                    Op::Recreate { side } => {
                        let i = (*side % 2) as usize;
                        let mut outs = vec![];
                        for s in [&mut mem[i], &mut fil[i]] {
                            // (a session leaves the replica marked open in the store)
                            s.store.close_replica(nsid);
                            let r = match s.store.remove_replica(&nsid) { Ok(()) => "ok".to_string(), Err(e) => format!("err:{e}") };
                            s.store.new_replica(ns.clone())?;
                            s.store.close_replica(nsid);
                            outs.push(r);
                        }
                        maps[i] = MapStore::new();
                        lines.push(Line::model(format!("tremove {} {nshex}", i + 1), outs[0].clone()));
                        lines.push(Line::model(format!("tns {} {nshex} 1 {}", i + 1, hex(&ns.to_bytes())), "inserted"));
                        lines.push(Line::model(format!("new {}", i + 11), "ok"));
                        let same = outs[0] == outs[1];
                        lines.push(Line::oracle("sconst backends-agree", if same { "backends-agree".to_string() } else { format!("differ mem={} file={}", outs[0], outs[1]) }));
                    }
                    Op::Session => {
                        // the same session on each backend; transcripts as step lines
                        let budget = 400;
                        let mut transcripts: Vec<Vec<String>> = vec![];
                        for pair in [&mut mem, &mut fil] {
                            let (a, b) = pair.split_at_mut(1);
                            let mut sa = Side::open(1, &mut a[0].store, nsid, PEER_A)?;
                            let mut sb = Side::open(2, &mut b[0].store, nsid, PEER_B)?;
                            let mut l = vec![];
                            let _ = run_session(&rt, &mut sa, &mut sb, &nshex, (max_set, split), budget, &mut l)?;
                            transcripts.push(l.iter().filter(|x| !x.op.starts_with("oreset")).map(|x| {
                                // strip the counters: the ordered-map backend has none
                                x.imp.split(" out ").next().unwrap().to_string()
                            }).collect());
                            if transcripts.len() == 1 {
                                for x in &l {
                                    if x.op.starts_with("tinit") {
                                        lines.push(x.clone());
                                        lines.push(Line::oracle("minit 11", x.imp.clone()));
                                    } else if x.op.starts_with("tproc") {
                                        let plain = x.imp.split(" out ").next().unwrap().to_string();
                                        lines.push(Line::model(x.op.replacen("tproc", "tprocplain", 1), plain.clone()));
                                        // ordered-map model: store ids 11 / 12
                                        let mut toks: Vec<String> = x.op.split(' ').map(|s| s.to_string()).collect();
                                        toks[0] = "mproc".into();
                                        toks[1] = format!("{}", toks[1].parse::<usize>().unwrap() + 10);
                                        lines.push(Line::oracle(toks.join(" "), plain));
                                    }
                                }
                            }
                        }
                        // the in-crate ordered map backend
                        let mut l = vec![];
                        {
                            let (a, b) = maps.split_at_mut(1);
                            let m0 = a[0].initial_message();
                            let mut msg = MMsg::from_real(&m0);
                            l.push(format!("msg {}", msg_tok(&msg, tok)));
                            let mut real = m0;
                            let mut to_b = true;
                            for _ in 0..budget {
                                let side = if to_b { &mut b[0] } else { &mut a[0] };
                                let (reply, ins) = rt.block_on(side.process_message(nsid, real));
                                // inserted entries carry the content status the peer reported (Missing here)
                                let ins: Vec<_> = ins.into_iter().map(|e| (e, ContentStatus::Missing)).collect();
                                let rm = reply.as_ref().map(MMsg::from_real);
                                l.push(lines_of_step(rm.as_ref(), &ins, tok));
                                match reply {
                                    None => break,
                                    Some(r) => {
                                        msg = rm.unwrap();
                                        let _ = &msg;
                                        real = r;
                                        to_b = !to_b;
                                    }
                                }
                            }
                        }
                        transcripts.push(l);
                        let same = transcripts[0] == transcripts[1] && transcripts[0] == transcripts[2];
                        lines.push(Line::oracle("sconst transcripts-equal", if same { "transcripts-equal".to_string() } else {
                            format!("differ lens={}/{}/{}", transcripts[0].len(), transcripts[1].len(), transcripts[2].len())
                        }));
                        // final sets
                        for i in 0..2usize {
                            let d_mem = dump_fp(&mut mem[i].store, nsid)?;
                            let d_file = dump_fp(&mut fil[i].store, nsid)?;
                            let d_map = entries_line(&maps[i].entries().iter().map(|e| with_fp(stored_tok(e), e)).collect::<Vec<_>>());
                            lines.push(Line::model(format!("tquery {} {nshex} flat-ak * any - 0 1 0", i + 1), d_mem.clone()));
                            lines.push(Line::oracle(format!("dump {}", i + 11), d_mem.clone()));
                            let same = d_mem == d_file && d_mem == d_map;
                            lines.push(Line::oracle("sconst final-sets-equal", if same { "final-sets-equal" } else { "final-sets-differ" }));
                        }
                    }
                }
            }
            Ok(())
        })();
        iroh_docs::verif::set_thread_sync_config(None);
        res?;
        Ok(lines)
    }
    fn features(&self, ops: &[Op], lines: &[Line]) -> Vec<String> {
        let mut f = vec![];
        if let Some(Op::Cfg { max_set, split }) = ops.first() {
            f.push(format!("split:{split}"));
            f.push(format!("max_set:{max_set}"));
        }
        for o in ops {
            if let Op::Probe { xa, xk, ya, yk, same, empty_fp } = o {
                let x = (self.keys.authors[*xa].id().to_bytes(), xk.clone());
                let y = (self.keys.authors[*ya].id().to_bytes(), yk.clone());
                f.push(format!("probe:{}:{}", if *same || x == y { "x=y" } else if x < y { "x<y" } else { "x>y" }, if *empty_fp { "anchor" } else { "split" }));
            }
        }
        if lines.iter().any(|l| l.op.starts_with("tprocplain") && l.imp.contains("I;")) {
            f.push("probe-or-session-with-items".into());
        }
        f.sort();
        f.dedup();
        f
    }
    fn nontrivial(&self, _ops: &[Op], lines: &[Line]) -> bool {
        lines.iter().filter(|l| l.op.starts_with("tprocplain")).count() >= 3
    }
}

pub fn dump_fp(store: &mut iroh_docs::store::Store, ns: iroh_docs::NamespaceId) -> anyhow::Result<String> {
    let mut toks = Vec::new();
    for e in store.get_many(ns, iroh_docs::store::Query::all().include_empty())? {
        let e = e?;
        toks.push(with_fp(stored_tok(&e), &e));
    }
    Ok(entries_line(&toks))
}
