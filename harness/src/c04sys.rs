//! C04 on the whole stack: 2-3 real docs nodes in one process (endpoint, router, gossip, blobs,
//! `Docs::memory`), joined over the loopback interface, written to through the client API.
//!
//! What runs here and nowhere else in the harness: the live actor's own loop, gossip broadcast and
//! `engine/gossip.rs::receive_loop`, neighbour-up syncs, sync reports, `net::connect_and_sync` /
//! `handle_connection` as the engine calls them. The schedule is the runtime's, not ours, so only
//! the *specification* is compared: at quiescence every node holds exactly the join of everything
//! written anywhere, and at no observed moment does a node hold an entry outside that set.
//!
//! Quiescence is waited for (the state is polled), then — if the nodes have not converged by
//! themselves within the first bound — forced once by asking every node to sync with every other
//! (the closing round of C04's statement), and waited for again.

use std::time::{Duration, Instant};

use iroh::{
    endpoint::{presets, Endpoint},
    protocol::Router,
};
use iroh_docs::{
    api::{Doc, DocsApi},
    protocol::Docs,
    store::Query,
    sync::Capability,
};
use n0_future::StreamExt;
use serde::{Deserialize, Serialize};

use crate::{c02::gen_key, common::*, world::*};

#[derive(Clone, Debug, Serialize, Deserialize)]
pub enum Op {
    /// number of nodes (2 or 3) and who joins whom: `star` = everybody dials node 0, else a chain
    Cfg { n: usize, star: bool },
    Write { i: usize, a: usize, key: Vec<u8>, c: usize },
    Delete { i: usize, a: usize, key: Vec<u8> },
    /// let the swarm work for a moment
    Pause { ms: u64 },
    /// node `i` is shut down and started again from its directory (same key, same store), opens the
    /// document and joins its peers again
    Restart { i: usize },
}

pub struct C04Sys {
    pub keys: Keys,
}

impl C04Sys {
    pub fn new() -> Self {
        C04Sys { keys: Keys::new(1, 3) }
    }
}

struct Node {
    router: Router,
    api: DocsApi,
    addr: iroh::EndpointAddr,
}

impl Node {
    /// wait until the endpoint has let go of its sockets (the successor binds anew)
    async fn endpoint_closed(&self) {
        self.router.endpoint().close().await;
    }
}

async fn spawn_node(seed: u8, dir: &std::path::Path) -> anyhow::Result<Node> {
    let endpoint = Endpoint::builder(presets::Minimal)
        .secret_key(iroh::SecretKey::from_bytes(&[seed; 32]))
        .bind()
        .await
        .map_err(|e| anyhow::anyhow!("bind: {e}"))?;
    let gossip = iroh_gossip::net::Gossip::builder().spawn(endpoint.clone());
    let blobs = iroh_blobs::store::mem::MemStore::new();
    let docs = Docs::persistent(dir.to_path_buf()).spawn(endpoint.clone(), (*blobs).clone(), gossip.clone()).await?;
    let router = Router::builder(endpoint.clone())
        .accept(iroh_blobs::ALPN, iroh_blobs::BlobsProtocol::new(&blobs, None))
        .accept(iroh_docs::ALPN, docs.clone())
        .accept(iroh_gossip::ALPN, gossip)
        .spawn();
    let port = endpoint.bound_sockets().iter().find(|a| a.is_ipv4()).map(|a| a.port()).ok_or_else(|| anyhow::anyhow!("no ipv4 socket"))?;
    let addr = iroh::EndpointAddr::new(endpoint.id()).with_ip_addr(std::net::SocketAddr::from(([127, 0, 0, 1], port)));
    Ok(Node { router, api: docs.api().clone(), addr })
}

/// all entries of the document on a node, as canonical tokens sorted by id
async fn dump(doc: &Doc) -> anyhow::Result<Vec<String>> {
    let s = doc.get_many(Query::all().include_empty()).await?;
    let mut s = std::pin::pin!(s);
    let mut v: Vec<(Vec<u8>, String)> = vec![];
    while let Some(e) = s.next().await {
        let e = e?;
        let mut id = e.namespace().as_bytes().to_vec();
        id.extend_from_slice(e.author().as_bytes());
        id.extend_from_slice(e.key());
        let tok = format!(
            "{},{},{},{},{},{},0,1,1",
            hex(e.namespace().as_bytes()),
            hex(e.author().as_bytes()),
            hex(e.key()),
            e.timestamp(),
            e.content_len(),
            hex(e.content_hash().as_bytes())
        );
        v.push((id, tok));
    }
    v.sort();
    Ok(v.into_iter().map(|x| x.1).collect())
}

impl Property for C04Sys {
    type Op = Op;
    fn id(&self) -> &'static str {
        "C04"
    }
    fn case_prefix(&self) -> &'static str {
        "sys-"
    }
    fn parallel(&self) -> bool {
        false
    }
    fn rule(&self) -> String {
        "WHOLE-STACK PATH: 2-3 real docs nodes (endpoint, router, gossip, blobs, live actor) joined in a star or a chain over the loopback interface; 2-12 writes and prefix deletions through the client API on arbitrary nodes with increasing clocks, pauses and restarts of a node from its directory (persistent store) in between; at quiescence (waited for; forced once by a round of explicit syncs if needed) every node is compared with the join of everything written; every observed intermediate state must lie inside the set of written entries; non-trivial = writes on at least two nodes".into()
    }
    fn corpus(&self) -> Vec<(String, Vec<Op>)> {
        vec![(
            "sys-three-nodes-chain".into(),
            vec![
                Op::Cfg { n: 3, star: false },
                Op::Write { i: 0, a: 0, key: b"a".to_vec(), c: 0 },
                Op::Write { i: 2, a: 1, key: b"b".to_vec(), c: 1 },
                Op::Pause { ms: 200 },
                Op::Write { i: 1, a: 0, key: b"ab".to_vec(), c: 2 },
                Op::Delete { i: 2, a: 0, key: b"a".to_vec() },
                Op::Restart { i: 1 },
                Op::Write { i: 0, a: 2, key: b"".to_vec(), c: 1 },
                Op::Write { i: 1, a: 1, key: b"z".to_vec(), c: 0 },
            ],
        )]
    }
    fn generate(&self, rng: &mut Rng, _i: usize, thorough: bool) -> Vec<Op> {
        let n = rng.range(2, 3);
        let mut ops = vec![Op::Cfg { n, star: rng.chance(1, 2) }];
        for _ in 0..rng.range(2, if thorough { 16 } else { 12 }) {
            let i = rng.below(n);
            ops.push(match rng.below(8) {
                0..=4 => Op::Write { i, a: rng.below(3), key: gen_key(rng), c: rng.below(3) },
                5..=6 => Op::Delete { i, a: rng.below(3), key: gen_key(rng) },
                7 if rng.chance(1, 2) => Op::Restart { i },
                _ => Op::Pause { ms: *rng.pick(&[20u64, 100, 300]) },
            });
        }
        ops
    }
    fn execute(&self, ops: &[Op]) -> anyhow::Result<Vec<Line>> {
        let (n, star) = match ops.first() {
            Some(Op::Cfg { n, star }) => ((*n).clamp(2, 3), *star),
            _ => (2, true),
        };
        let rt = tokio::runtime::Builder::new_multi_thread().worker_threads(4).enable_all().build()?;
        let ns = &self.keys.namespaces[0];
        let nsid = ns.id();
        let keys = &self.keys;
        let mut clock = NOW;
        iroh_docs::verif::set_clock_micros(Some(clock));
        let res: anyhow::Result<Vec<Line>> = rt.block_on(async {
            let mut lines = vec![Line::model("new 1", "ok")];
            let dirs: Vec<tempfile::TempDir> = (0..n).map(|_| tempfile::tempdir()).collect::<Result<_, _>>()?;
            let mut nodes = vec![];
            for i in 0..n {
                nodes.push(spawn_node(0x51 + i as u8, dirs[i].path()).await?);
            }
            let mut docs: Vec<Doc> = vec![];
            for node in &nodes {
                for a in &keys.authors {
                    node.api.author_import(a.clone()).await?;
                }
                docs.push(node.api.import_namespace(Capability::Write(ns.clone())).await?);
            }
            // join: node 0 listens, the others dial node 0 (star) or their predecessor (chain)
            docs[0].start_sync(vec![]).await?;
            for i in 1..n {
                let peer = if star { nodes[0].addr.clone() } else { nodes[i - 1].addr.clone() };
                docs[i].start_sync(vec![peer]).await?;
            }
            let mut written: Vec<String> = vec![];
            let mut foreign: Option<String> = None;
            for op in ops {
                match op {
                    Op::Cfg { .. } => {}
                    Op::Pause { ms } => tokio::time::sleep(Duration::from_millis(*ms)).await,
                    Op::Restart { i } if *i < n => {
                        let old = nodes.remove(*i);
                        old.router.shutdown().await.ok();
                        old.endpoint_closed().await;
                        let node = spawn_node(0x51 + *i as u8, dirs[*i].path()).await?;
                        let doc = node.api.open(nsid).await?.ok_or_else(|| anyhow::anyhow!("document lost by the restart"))?;
                        let peers: Vec<_> = (0..n - 1).map(|j| nodes[j].addr.clone()).collect();
                        doc.start_sync(peers).await?;
                        nodes.insert(*i, node);
                        docs[*i] = doc;
                    }
                    Op::Write { i, a, key, c } if *i < n => {
                        clock += 1000;
                        iroh_docs::verif::set_clock_micros(Some(clock));
                        let author = &keys.authors[*a];
                        let data = format!("content-{c}");
                        docs[*i].set_bytes(author.id(), key.clone(), data).await?;
                        let tok = honest_tok(&make_entry(ns, author, key, Some(*c), clock));
                        lines.push(Line::model(format!("soffer 1 {tok}"), "ok"));
                        written.push(tok);
                    }
                    Op::Delete { i, a, key } if *i < n => {
                        clock += 1000;
                        iroh_docs::verif::set_clock_micros(Some(clock));
                        let author = &keys.authors[*a];
                        docs[*i].del(author.id(), key.clone()).await?;
                        let tok = honest_tok(&make_entry(ns, author, key, None, clock));
                        lines.push(Line::model(format!("soffer 1 {tok}"), "ok"));
                        written.push(tok);
                    }
                    _ => {}
                }
                // no node ever holds an entry that nobody wrote
                for (i, d) in docs.iter().enumerate() {
                    for t in dump(d).await? {
                        if !written.contains(&t) && foreign.is_none() {
                            foreign = Some(format!("node{i}:{t}"));
                        }
                    }
                }
            }
            lines.push(Line::oracle("sconst no-foreign-entries", foreign.map(|f| format!("foreign-entry:{f}")).unwrap_or_else(|| "no-foreign-entries".into())));
            // quiescence: all nodes equal and unchanged for a while
            let settle = |docs: &[Doc], bound: Duration| {
                let docs = docs.to_vec();
                async move {
                    let t0 = Instant::now();
                    let mut last: Option<Vec<Vec<String>>> = None;
                    let mut stable_since = Instant::now();
                    loop {
                        let mut cur = vec![];
                        for d in &docs {
                            cur.push(dump(d).await?);
                        }
                        let equal = cur.windows(2).all(|w| w[0] == w[1]);
                        if last.as_ref() != Some(&cur) {
                            stable_since = Instant::now();
                            last = Some(cur.clone());
                        }
                        if equal && stable_since.elapsed() > Duration::from_millis(400) {
                            return anyhow::Ok((true, cur));
                        }
                        if t0.elapsed() > bound {
                            return Ok((false, cur));
                        }
                        tokio::time::sleep(Duration::from_millis(50)).await;
                    }
                }
            };
            let bound: u64 = std::env::var("VERIF_C04SYS_SECS").ok().and_then(|s| s.parse().ok()).unwrap_or(30);
            let (mut ok, mut state) = settle(&docs, Duration::from_secs(bound)).await?;
            let mut forced = false;
            if !ok {
                forced = true;
                for i in 0..n {
                    let peers: Vec<_> = (0..n).filter(|j| *j != i).map(|j| nodes[j].addr.clone()).collect();
                    docs[i].start_sync(peers).await?;
                }
                let r = settle(&docs, Duration::from_secs(4 * bound)).await?;
                ok = r.0;
                state = r.1;
            }
            // (recorded for the evidence only: did the swarm converge by itself?)
            let how = if !forced { "self-converged" } else if ok { "converged-after-closing-round" } else { "not-converged" };
            lines.push(Line::model(format!("sconst {how}"), how));
            for s in &state {
                lines.push(Line::oracle("join 1", entries_line(s)));
            }
            for node in nodes {
                node.router.shutdown().await.ok();
            }
            Ok(lines)
        });
        iroh_docs::verif::set_clock_micros(None);
        res
    }
    fn features(&self, ops: &[Op], _lines: &[Line]) -> Vec<String> {
        let mut f = vec![];
        if let Some(Op::Cfg { n, star }) = ops.first() {
            f.push(format!("nodes:{n}"));
            f.push(if *star { "topology:star".into() } else { "topology:chain".into() });
        }
        for o in ops {
            f.push(format!("op:{}", format!("{o:?}").split([' ', '{']).next().unwrap_or("")));
        }
        for l in _lines {
            if l.op.starts_with("sconst ") && !l.oracle {
                f.push(format!("quiescence:{}", l.imp));
            }
        }
        f.sort();
        f.dedup();
        f
    }
    fn nontrivial(&self, ops: &[Op], _lines: &[Line]) -> bool {
        let mut who = std::collections::BTreeSet::new();
        for o in ops {
            if let Op::Write { i, .. } | Op::Delete { i, .. } = o {
                who.insert(*i);
            }
        }
        who.len() >= 2
    }
}
