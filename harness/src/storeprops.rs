//! C07, C13, C15, C16, C17: store-level properties over `storeops`.

use iroh_docs::{store::FilterKind, AuthorHeads};
use serde::{Deserialize, Serialize};

use crate::{c02::gen_key, common::*, storeops::*};

#[derive(Clone, Debug, Serialize, Deserialize)]
pub enum Op {
    S(SOp),
    /// C13: `AuthorHeads::encode(limit)` / `decode` on a head set (author index, timestamp)
    HeadsCodec { heads: Vec<(usize, u64)>, limit: Option<usize> },
    /// C13: `AuthorHeads::decode` on raw bytes
    HeadsDecode { bytes: Vec<u8> },
    /// C15: `DownloadPolicy::matches`
    PolicyMatch { pol: Pol, key: Vec<u8> },
    /// C15: `FilterKind` Display / FromStr round trip
    FilterText { exact: bool, bytes: Vec<u8> },
    /// C15: `FilterKind::from_str` on arbitrary text
    FilterParse { text: String },
    /// C07: `Capability::merge` (and `ReplicaInfo::merge_capability`) of the capability of document
    /// `n` (write or read) with that of document `m`; then, with the merged capability, whether a
    /// replica of `n` can author
    Merge { n: usize, write: bool, m: usize, other_write: bool },
}

pub struct StoreProp {
    pub id: &'static str,
    pub keys: Keys,
}

impl StoreProp {
    pub fn new(id: &'static str) -> Self {
        // 4 documents (ids sorted by the key pool's preference for 0xFF edges), 3 authors
        let mut keys = Keys::new(4, 3);
        keys.namespaces.sort_by_key(|n| *n.id().as_bytes());
        StoreProp { id, keys }
    }
    fn n_docs(&self) -> usize {
        self.keys.namespaces.len()
    }
}

fn heads_of(keys: &Keys, heads: &[(usize, u64)]) -> (AuthorHeads, String) {
    let mut h = AuthorHeads::default();
    for (a, ts) in heads {
        if *a >= 1000 {
            // synthetic authors (any 32 bytes are an author id): for sets of more than a hundred heads
            let mut id = [0xA0u8; 32];
            id[0] = ((*a - 1000) / 256) as u8;
            id[31] = ((*a - 1000) % 256) as u8;
            h.insert(iroh_docs::AuthorId::from(&id), *ts);
        } else {
            h.insert(keys.authors[*a % keys.authors.len()].id(), *ts);
        }
    }
    let toks: Vec<(String, u64)> = h.iter().map(|(a, t)| (hex(a.as_bytes()), *t)).collect();
    (h, heads_tok(&toks))
}

fn heads_line(h: &AuthorHeads) -> String {
    let toks: Vec<(String, u64)> = h.iter().map(|(a, t)| (hex(a.as_bytes()), *t)).collect();
    format!("ok {}", heads_tok(&toks))
}

impl Property for StoreProp {
    type Op = Op;
    fn id(&self) -> &'static str {
        self.id
    }
    fn rule(&self) -> String {
        match self.id {
            "C13" => "histories of remote inserts with out-of-order timestamps over 2 documents and 3 authors, prefix deletions, document removal and re-creation, reopen; after every step heads and has_news (random peer head reports) are compared with the model and with the specification (max timestamp of entries held); head sets with shared timestamps encoded under limits 0..120 and without limit, decode of random bytes; non-trivial = at least 3 entries inserted or a codec operation on >= 2 heads",
            "C16" => "stores with 4 documents with real key ids (0xFF-edged ids preferred) and 7 documents whose ids are hand-picked neighbours in byte order (P07FF, P0800, P0880, P08FF, P0900, FF..FE, FF..FF; read-only, populated through hook H6 with 6 neighbouring author ids), histories of writes, deletions, peers, policies, open/close, removal (refused while open) and re-creation; all observers (entries both index paths, heads, peers, policy, namespaces, content hashes) of all documents after every removal; non-trivial = a removal succeeded on a document that held entries",
            "C17" => "sequences of 1-30 peer registrations with strictly increasing times over 1-9 distinct peers and 3 documents (one unknown), interleaved reads, reopen, re-imports and upgrades of capabilities (the list is not affected), removal and re-creation of a document (its list starts empty again); specification = five most recent distinct peers, most recent first; non-trivial = more than 5 distinct peers or a re-registration",
            "C15" => "random policies (both kinds, 0-3 exact/prefix filters incl. empty and non-UTF-8 bytes) set/read on existing and unknown documents with reopen; policy x key match decisions; filter text round trips and parsing of malformed filter strings; non-trivial = policy with at least one filter",
            "C18" => "file stores built by histories of remote inserts (2 documents, 3 authors, deletion markers, equal timestamps) in which the head table and/or the by-key index are deleted with plain redb and the file is opened again 1-3 times; heads (timestamps and keys), key-ordered and latest-per-key queries, entries, peers, policies, namespaces and content hashes compared with the model (migration functions) and with the specifications (max timestamp; filter/sort/window); non-trivial = a derived table was dropped from a store with at least 2 entries",
            "C07" => "sequences of capability imports (read/write) over 3 documents, open/close, reopen, local insert/delete attempts and remote inserts, peer registrations and download policies (which an import must leave alone); kinds listed after every step, everything observable about every document at intervals; non-trivial = a read-only document saw a write attempt or an upgrade",
            _ => "",
        }.to_string()
    }
    fn corpus(&self) -> Vec<(String, Vec<Op>)> {
        let put = |n: usize, a: usize, k: &[u8], c: Option<usize>, ts: u64| Op::S(SOp::Put { n, a, key: k.to_vec(), c, ts });
        let imp = |n: usize| Op::S(SOp::Import { n, write: true });
        match self.id {
            "C13" => vec![
                ("f4-out-of-order-head".into(), vec![imp(0), put(0, 0, b"k1", Some(0), 10), put(0, 0, b"k2", Some(1), 5), Op::S(SOp::Observe { n: 0 }),
                    Op::S(SOp::HasNews { n: 0, heads: vec![(0, 7)] }), Op::S(SOp::HasNews { n: 0, heads: vec![(0, 11), (1, 1)] })]),
                ("f6-heads-after-remove-recreate".into(), vec![imp(0), put(0, 0, b"k1", Some(0), 10), Op::S(SOp::Remove { n: 0 }), imp(0), Op::S(SOp::Observe { n: 0 }),
                    Op::S(SOp::HasNews { n: 0, heads: vec![(0, 3)] })]),
                ("f5-shared-timestamps".into(), vec![Op::HeadsCodec { heads: vec![(0, 7), (1, 7), (2, 8)], limit: None }]),
                ("f12-limit-zero".into(), vec![Op::HeadsCodec { heads: vec![(0, 7), (1, 7), (2, 8)], limit: Some(0) },
                    Op::HeadsCodec { heads: vec![(0, 7)], limit: Some(1) }, Op::HeadsCodec { heads: vec![(0, 7), (1, 9)], limit: Some(35) }]),
            ],
            "C16" => vec![
                ("f6-remove-clears-heads".into(), vec![imp(0), imp(1), put(0, 0, b"k1", Some(0), 10), put(1, 0, b"k1", Some(0), 10),
                    Op::S(SOp::Peer { n: 0, t: 100, p: 1 }), Op::S(SOp::SetPolicy { n: 0, pol: Pol { everything: false, filters: vec![(true, b"a".to_vec())] } }),
                    Op::S(SOp::Remove { n: 0 }), Op::S(SOp::ObserveAll), imp(0), Op::S(SOp::ObserveAll)]),
                ("remove-refused-while-open".into(), vec![imp(0), put(0, 0, b"k", Some(0), 5), Op::S(SOp::OpenRep { n: 0 }), Op::S(SOp::Remove { n: 0 }),
                    Op::S(SOp::ObserveAll), Op::S(SOp::CloseRep { n: 0 }), Op::S(SOp::Remove { n: 0 }), Op::S(SOp::ObserveAll)]),
            ],
            "C18" => {
                // a store with more than a thousand records (a rebuild that works in batches has seams)
                let mut big = vec![Op::S(SOp::Open { file: true }), imp(0), imp(1)];
                for i in 0..1100usize {
                    big.push(put(i % 2, (i / 2) % 3, format!("k{:04}", i).as_bytes(), if i % 7 == 0 { None } else { Some(i % 3) }, 10 + (i % 4) as u64));
                }
                big.push(Op::S(SOp::DropDerived { latest: false, by_key: true, v1: false, truncate: false }));
                big.push(Op::S(SOp::ObserveAll));
                big.push(Op::S(SOp::DropDerived { latest: true, by_key: true, v1: false, truncate: true }));
                big.push(Op::S(SOp::ObserveAll));
                vec![("rebuild-of-a-store-with-1100-records".into(), big)]
            }
            _ => vec![],
        }
    }
    fn generate(&self, rng: &mut Rng, _i: usize, thorough: bool) -> Vec<Op> {
        let scale = if thorough { 2 } else { 1 };
        let mut ops = vec![Op::S(SOp::Open { file: rng.chance(1, 4) })];
        let docs = self.n_docs();
        match self.id {
            "C13" => {
                for n in 0..2 {
                    ops.push(Op::S(SOp::Import { n, write: true }));
                }
                // in half of the cases the store also holds the secret keys of some of the authors whose
                // entries arrive from elsewhere (the same author on two devices)
                if rng.chance(1, 2) {
                    for a in 0..3 {
                        if rng.chance(1, 2) {
                            ops.push(Op::S(SOp::ImportAuthor { a }));
                        }
                    }
                }
                if rng.chance(1, 4) {
                    ops.push(Op::S(SOp::ViaActor));
                }
                for _ in 0..rng.range(3, 14 * scale) {
                    match rng.below(20) {
                        0..=10 => {
                            let mut p = gen_put(rng, 2, 3);
                            // the edges of the timestamp range occur too
                            if rng.chance(1, 10) {
                                if let SOp::Put { ts, .. } = &mut p {
                                    *ts = *rng.pick(&[0u64, 1]);
                                }
                            }
                            ops.push(Op::S(p))
                        }
                        11 if rng.chance(1, 2) => {
                            // a batch through one replica handle: one author's entries in rising order of time,
                            // all of them possibly older than what is already held
                            let a = rng.below(3);
                            let n = rng.below(2);
                            let mut ts: Vec<u64> = (0..rng.range(2, 4)).map(|_| *rng.pick(&crate::c02::TIMES)).collect();
                            ts.sort();
                            let entries = ts.into_iter().enumerate().map(|(i, t)| (a, vec![0x62, i as u8, rng.below(3) as u8], Some(rng.below(3)), t)).collect();
                            ops.push(Op::S(SOp::PutBatch { n, entries }));
                            ops.push(Op::S(SOp::Observe { n }));
                        }
                        11..=13 => {
                            let k = rng.range(1, 3);
                            ops.push(Op::S(SOp::HasNews {
                                n: rng.below(2),
                                heads: (0..k).map(|_| (rng.below(3), *rng.pick(&[0u64, 0, 1, 4, 5, 9, 10, 11, 12, u64::MAX]))).collect(),
                            }))
                        }
                        14 => {
                            let n = rng.below(2);
                            ops.push(Op::S(SOp::Remove { n }));
                            if rng.chance(2, 3) {
                                ops.push(Op::S(SOp::Import { n, write: true }));
                            }
                        }
                        15 => ops.push(Op::S(SOp::Reopen)),
                        16..=17 => ops.push(Op::S(SOp::Observe { n: rng.below(2) })),
                        18 if rng.chance(1, 3) => {
                            // more than 127 heads: the list length needs two bytes; limits around
                            // "k newest heads fit exactly" (each head takes 40 bytes here)
                            let n = rng.range(125, 132);
                            let base = 1_700_000_000_000_000u64;
                            let k = rng.range(n.saturating_sub(4), n + 1);
                            let limit = (40 * k + rng.below(5)).saturating_sub(1);
                            ops.push(Op::HeadsCodec {
                                heads: (0..n).map(|i| (1000 + i, base + (i as u64 * 7919) % 1000)).collect(),
                                limit: if rng.chance(1, 8) { None } else { Some(limit) },
                            });
                        }
                        _ => {
                            let k = rng.range(0, 5);
                            ops.push(Op::HeadsCodec {
                                heads: (0..k).map(|_| (rng.below(3), *rng.pick(&[0u64, 7, 7, 8, 127, 128, 300, 1 << 40, u64::MAX]))).collect(),
                                limit: if rng.chance(1, 3) { None } else { Some(rng.below(121)) },
                            });
                            if rng.chance(1, 3) {
                                let len = rng.below(80);
                                ops.push(Op::HeadsDecode { bytes: (0..len).map(|_| *rng.pick(&[0u8, 1, 2, 0x7f, 0x80, 0xff, 33])).collect() });
                            }
                        }
                    }
                }
                ops.push(Op::S(SOp::Observe { n: 0 }));
                ops.push(Op::S(SOp::Observe { n: 1 }));
            }
            "C16" => {
                // documents: the real ones and the hand-picked neighbours in byte order
                let raw = RAW_NS.len();
                let pick_doc = |rng: &mut Rng| if rng.chance(1, 2) { rng.below(docs) } else { RAW_BASE + rng.below(raw) };
                for n in (0..docs).chain((0..raw).map(|d| RAW_BASE + d)) {
                    if rng.chance(5, 6) {
                        ops.push(Op::S(SOp::Import { n, write: rng.chance(3, 4) }));
                    }
                }
                if rng.chance(1, 4) {
                    // the protected content hashes and the policies are then asked of the store actor
                    ops.push(Op::S(SOp::ViaActor));
                }
                for _ in 0..rng.range(4, 16 * scale) {
                    match rng.below(20) {
                        0..=9 => {
                            let n = pick_doc(rng);
                            let mut p = gen_put(rng, docs, 3);
                            if let SOp::Put { n: pn, a, .. } = &mut p {
                                *pn = n;
                                if n >= RAW_BASE {
                                    *a = rng.below(RAW_AUTHORS.len());
                                }
                            }
                            ops.push(Op::S(p))
                        }
                        10..=11 => ops.push(Op::S(SOp::Peer { n: pick_doc(rng), t: 100 + ops.len() as u64, p: rng.below(4) as u8 })),
                        12 => ops.push(Op::S(SOp::SetPolicy { n: pick_doc(rng), pol: gen_pol(rng) })),
                        13 => ops.push(Op::S(if rng.chance(1, 2) { SOp::OpenRep { n: pick_doc(rng) } } else { SOp::OpenInfo { n: pick_doc(rng) } })),
                        14 => ops.push(Op::S(SOp::CloseRep { n: pick_doc(rng) })),
                        15..=17 => {
                            let n = pick_doc(rng);
                            ops.push(Op::S(SOp::Remove { n }));
                            ops.push(Op::S(SOp::ObserveAll));
                            if rng.chance(1, 2) {
                                ops.push(Op::S(SOp::Import { n, write: true }));
                                ops.push(Op::S(SOp::Observe { n }));
                            }
                        }
                        18 => ops.push(Op::S(SOp::Reopen)),
                        _ => ops.push(Op::S(SOp::ObserveAll)),
                    }
                }
                if rng.chance(1, 4) {
                    // many documents open at once, one of them closed, then every document is asked to go:
                    // the open ones have to be refused whatever the order of opens and closes was
                    let all: Vec<usize> = (0..docs).chain((0..raw).map(|d| RAW_BASE + d)).collect();
                    for &n in &all {
                        ops.push(Op::S(SOp::Import { n, write: true }));
                        ops.push(Op::S(if rng.chance(1, 2) { SOp::OpenRep { n } } else { SOp::OpenInfo { n } }));
                    }
                    for _ in 0..rng.range(1, 2) {
                        ops.push(Op::S(SOp::CloseRep { n: *rng.pick(&all) }));
                    }
                    let mut order = all.clone();
                    rng.shuffle(&mut order);
                    for n in order {
                        ops.push(Op::S(SOp::Remove { n }));
                    }
                    ops.push(Op::S(SOp::ObserveAll));
                }
                ops.push(Op::S(SOp::ObserveAll));
            }
            "C17" => {
                ops.push(Op::S(SOp::Import { n: 0, write: true }));
                ops.push(Op::S(SOp::Import { n: 1, write: false }));
                let via_actor = rng.chance(1, 4);
                if via_actor {
                    ops.push(Op::S(SOp::ViaActor));
                }
                let npeers = rng.range(1, 9);
                let mut t = 1000u64;
                for _ in 0..rng.range(1, 30 * scale) {
                    t += 1 + rng.below(5) as u64;
                    match rng.below(14) {
                        // opening (also of the unknown document, which fails) and closing around registrations
                        // (at the store only: behind the actor the documents are opened by the requests themselves)
                        12 | 13 if via_actor => ops.push(Op::S(SOp::Observe { n: rng.below(3) })),
                        12 => {
                            let n = *rng.pick(&[2usize, 2, 0, 1]);
                            ops.push(Op::S(if rng.chance(1, 2) { SOp::OpenRep { n } } else { SOp::OpenInfo { n } }));
                        }
                        13 => ops.push(Op::S(SOp::CloseRep { n: rng.below(3) })),
                        0..=8 => ops.push(Op::S(SOp::Peer { n: *rng.pick(&[0usize, 0, 0, 1, 2]), t, p: rng.below(npeers) as u8 })),
                        9 => ops.push(Op::S(SOp::Reopen)),
                        11 if rng.chance(1, 2) => {
                            // a capability is imported again (same kind, or the upgrade of the read-only
                            // document): the list is not affected
                            ops.push(Op::S(SOp::Import { n: rng.below(2), write: rng.chance(2, 3) }));
                        }
                        10 if rng.chance(1, 2) => {
                            // the document is removed and created again: its list starts empty
                            let n = rng.below(2);
                            ops.push(Op::S(SOp::Remove { n }));
                            ops.push(Op::S(SOp::Observe { n }));
                            ops.push(Op::S(SOp::Import { n, write: rng.chance(1, 2) }));
                        }
                        _ => ops.push(Op::S(SOp::Observe { n: rng.below(3) })),
                    }
                }
                for n in 0..3 {
                    ops.push(Op::S(SOp::Observe { n }));
                }
            }
            "C15" => {
                ops.push(Op::S(SOp::Import { n: 0, write: true }));
                ops.push(Op::S(SOp::Import { n: 1, write: false }));
                if rng.chance(1, 4) {
                    ops.push(Op::S(SOp::ViaActor));
                }
                for _ in 0..rng.range(3, 14 * scale) {
                    match rng.below(15) {
                        // a remote entry arrives: the download flag of its event follows the document's policy
                        12..=14 => ops.push(Op::S(SOp::Put { n: rng.below(2), a: rng.below(2), key: gen_key(rng), c: Some(rng.below(3)), ts: *rng.pick(&[5u64, 6, 7, 9, 10, 11]) })),
                        0..=2 => ops.push(Op::S(SOp::SetPolicy { n: rng.below(3), pol: gen_pol(rng) })),
                        3 => ops.push(Op::S(SOp::Observe { n: rng.below(3) })),
                        4 => ops.push(Op::S(SOp::Reopen)),
                        5..=8 => {
                            let pol = gen_pol(rng);
                            // keys related to the filters: equal, extension, strict prefix, unrelated
                            let key = if !pol.filters.is_empty() && rng.chance(3, 4) {
                                let mut k = rng.pick(&pol.filters).1.clone();
                                match rng.below(3) {
                                    0 => {}
                                    1 => k.push(*rng.pick(&crate::c02::KEY_BYTES)),
                                    _ => {
                                        k.pop();
                                    }
                                }
                                k
                            } else {
                                gen_key(rng)
                            };
                            ops.push(Op::PolicyMatch { pol, key });
                        }
                        9..=10 => {
                            let bytes = match rng.below(8) {
                                0 => vec![0xC3, 0x28, 0xFF],
                                1 => b"a:b:c".to_vec(),
                                2 => "h\u{e9}llo".as_bytes().to_vec(),
                                // white space at the edges and inside: part of the filter bytes
                                3 => {
                                    let ws = *rng.pick(&[" ", "\t", "\n", "\r\n", "\u{a0}", "\u{2003}", "  "]);
                                    let core = *rng.pick(&["", "a", "notes/my drafts", ":", "a:b"]);
                                    match rng.below(3) {
                                        0 => format!("{core}{ws}"),
                                        1 => format!("{ws}{core}"),
                                        _ => format!("{ws}{core}{ws}"),
                                    }
                                    .into_bytes()
                                }
                                4 => {
                                    // printable ASCII incl. punctuation the textual form uses
                                    let n = rng.range(0, 6);
                                    (0..n).map(|_| *rng.pick(b" :=,;%\\\"'#/a0Z~")).collect()
                                }
                                _ => gen_key(rng),
                            };
                            ops.push(Op::FilterText { exact: rng.chance(1, 2), bytes });
                        }
                        _ => {
                            let text = rng.pick(&["prefix:utf8:abc", "exact:hex:00ff", "exact:hex:0", "exact:hex:zz", "foo:utf8:a", "prefix:b64:a", "prefix", "prefix:utf8", "exact:utf8:", "exact:hex:", "prefix:utf8:a:b", "exact:HEX:00", "exact:hex:0AfF"]).to_string();
                            ops.push(Op::FilterParse { text });
                        }
                    }
                }
                ops.push(Op::S(SOp::Observe { n: 0 }));
                ops.push(Op::S(SOp::Observe { n: 1 }));
            }
            "C18" => {
                ops[0] = Op::S(SOp::Open { file: true });
                for n in 0..2 {
                    ops.push(Op::S(SOp::Import { n, write: true }));
                }
                for _ in 0..rng.range(2, 14 * scale) {
                    ops.push(Op::S(gen_put(rng, 2, 3)));
                }
                if rng.chance(1, 3) {
                    // several entries of one author through one replica handle (as a reconciliation message
                    // delivers them), in rising order of time
                    let a = rng.below(3);
                    let n = rng.below(2);
                    let mut ts: Vec<u64> = (0..rng.range(2, 4)).map(|_| *rng.pick(&crate::c02::TIMES)).collect();
                    ts.sort();
                    let entries = ts.into_iter().enumerate().map(|(i, t)| (a, vec![0x62, i as u8, rng.below(3) as u8], Some(rng.below(3)), t)).collect();
                    ops.push(Op::S(SOp::PutBatch { n, entries }));
                }
                if rng.chance(1, 3) {
                    // an author whose entries all sit at the smallest timestamps there are
                    let a0 = rng.below(3);
                    for o in ops.iter_mut() {
                        if let Op::S(SOp::Put { a, ts, .. }) = o {
                            if *a == a0 {
                                *ts = if rng.chance(2, 3) { 0 } else { 1 };
                            }
                        }
                    }
                }
                if rng.chance(1, 3) {
                    ops.push(Op::S(SOp::Peer { n: 0, t: 500, p: 1 }));
                    ops.push(Op::S(SOp::SetPolicy { n: 1, pol: gen_pol(rng) }));
                }
                ops.push(Op::S(SOp::ObserveAll));
                for _ in 0..rng.range(1, 3) {
                    match rng.below(4) {
                        0 => ops.push(Op::S(SOp::DropDerived { latest: true, by_key: false, v1: rng.chance(1, 3), truncate: rng.chance(1, 3) })),
                        1 => ops.push(Op::S(SOp::DropDerived { latest: false, by_key: true, v1: rng.chance(1, 3), truncate: rng.chance(1, 3) })),
                        2 => ops.push(Op::S(SOp::DropDerived { latest: true, by_key: true, v1: rng.chance(1, 3), truncate: rng.chance(1, 3) })),
                        _ => ops.push(Op::S(SOp::Reopen)),
                    }
                    ops.push(Op::S(SOp::ObserveAll));
                    if rng.chance(1, 3) {
                        ops.push(Op::S(gen_put(rng, 2, 3)));
                        ops.push(Op::S(SOp::ObserveAll));
                    }
                }
            }
            _ => {
                // C07
                for _ in 0..rng.range(3, 16 * scale) {
                    let n = rng.below(3);
                    match rng.below(16) {
                        0..=3 => ops.push(Op::S(SOp::Import { n, write: rng.chance(1, 2) })),
                        4 => ops.push(Op::S(SOp::OpenRep { n })),
                        5 => ops.push(Op::S(SOp::CloseRep { n })),
                        6..=8 => ops.push(Op::S(SOp::LocalInsert { n, a: rng.below(3), key: gen_key(rng), c: rng.below(3), ts: *rng.pick(&crate::c02::TIMES) })),
                        9 => ops.push(Op::S(SOp::LocalDelete { n, a: rng.below(3), key: gen_key(rng), ts: *rng.pick(&crate::c02::TIMES) })),
                        10..=12 => ops.push(Op::S(gen_put(rng, 3, 3))),
                        13 => ops.push(Op::S(SOp::Reopen)),
                        // state that an import must leave alone: useful peers, download policy
                        14 if rng.chance(1, 2) => ops.push(Op::S(SOp::Peer { n, t: 100 + ops.len() as u64, p: rng.below(4) as u8 })),
                        14 => ops.push(Op::S(SOp::SetPolicy { n, pol: gen_pol(rng) })),
                        15 if rng.chance(1, 2) => ops.push(Op::Merge { n, write: rng.chance(1, 2), m: if rng.chance(1, 2) { n } else { rng.below(3) }, other_write: rng.chance(1, 2) }),
                        _ => ops.push(Op::S(SOp::ObserveAll)),
                    }
                }
                ops.push(Op::S(SOp::ObserveAll));
            }
        }
        ops
    }
    fn execute(&self, ops: &[Op]) -> anyhow::Result<Vec<Line>> {
        let file = matches!(ops.first(), Some(Op::S(SOp::Open { file: true })));
        let mut w = StoreWorld::new(&self.keys, file, self.id)?;
        for op in ops {
            match op {
                Op::S(s) => {
                    w.apply(s)?;
                    if self.id == "C07" && !matches!(s, SOp::Open { .. } | SOp::ObserveAll | SOp::Observe { .. }) {
                        // the capability kinds after every step (monotone: write is never lost)
                        let mut v = Vec::new();
                        for r in w.rs.store.list_namespaces()? {
                            let (id, kind) = r?;
                            v.push(format!("{}={}", hex(id.as_bytes()), u8::from(kind)));
                        }
                        w.lines.push(Line::model("tnamespaces 1", format!("namespaces {}", v.join(";"))));
                        // specification: writable iff a write capability was ever imported
                        w.lines.push(Line::oracle("scaps 1", format!("namespaces {}", v.join(";"))));
                        if let SOp::LocalInsert { n, .. } | SOp::LocalDelete { n, .. } = s {
                            let res = w.lines.iter().rev().find(|l| l.op.starts_with("tlocal")).map(|l| l.imp.clone()).unwrap_or_default();
                            let imp = if res == "err:not-found" { "none" } else if res == "err:read-only" { "0" } else { "1" };
                            w.lines.push(Line::oracle(format!("swritable 1 {}", hex(self.keys.namespaces[*n].id().as_bytes())), imp));
                        }
                    }
                }
                Op::HeadsCodec { heads, limit } => {
                    let (h, tok) = heads_of(&self.keys, heads);
                    let lim = limit.map(|l| l.to_string()).unwrap_or("-".into());
                    let enc = h.encode(*limit);
                    let imp = match &enc {
                        Ok(b) => format!("ok {}", hex(b)),
                        Err(_) => "err".to_string(),
                    };
                    w.lines.push(Line::model(format!("hencode {lim} {tok}"), imp));
                    w.lines.push(Line::oracle(format!("hencodes {lim} {tok}"), if enc.is_ok() { "ok" } else { "err" }));
                    if let Ok(b) = enc {
                        // never exceeds the limit
                        let fits = limit.map(|l| b.len() <= l).unwrap_or(true);
                        w.lines.push(Line::oracle(format!("hfits {lim} {tok}"), format!("fits {}", fits as u8)));
                        // decoding returns what was kept: the newest heads that fit (all without limit)
                        let dec = AuthorHeads::decode(&b);
                        let imp = match &dec {
                            Ok(d) => heads_line(d),
                            Err(_) => "err".to_string(),
                        };
                        w.lines.push(Line::oracle(format!("hkept {lim} {tok}"), imp));
                    }
                }
                Op::HeadsDecode { bytes } => {
                    let imp = match AuthorHeads::decode(bytes) {
                        Ok(d) => heads_line(&d),
                        Err(_) => "err".to_string(),
                    };
                    w.lines.push(Line::model(format!("hdecode {}", hex(bytes)), imp));
                }
                Op::PolicyMatch { pol, key } => {
                    let ns = &self.keys.namespaces[0];
                    let e = crate::world::make_entry(ns, &self.keys.authors[0], key, Some(0), 5);
                    let m = pol.real().matches(e.entry());
                    w.lines.push(Line::model(format!("policymatch {} {}", pol.tok(), hex(key)), format!("{}", m as u8)));
                    w.lines.push(Line::oracle(format!("spolicymatch {} {}", pol.tok(), hex(key)), format!("{}", m as u8)));
                }
                Op::FilterText { exact, bytes } => {
                    let f = if *exact { FilterKind::Exact(bytes.clone().into()) } else { FilterKind::Prefix(bytes.clone().into()) };
                    let text = f.to_string();
                    let back: Result<FilterKind, _> = text.parse();
                    let imp = match back {
                        Ok(FilterKind::Exact(b)) => format!("ok x={}", hex(&b)),
                        Ok(FilterKind::Prefix(b)) => format!("ok p={}", hex(&b)),
                        Err(_) => "err".to_string(),
                    };
                    let tok = format!("{}={}", if *exact { "x" } else { "p" }, hex(bytes));
                    let utf8 = std::str::from_utf8(bytes).is_ok();
                    // model: display then parse; specification: identity
                    w.lines.push(Line::model(format!("filtertext {tok} {}", utf8 as u8), format!("{} {}", hex(text.as_bytes()), imp)));
                    w.lines.push(Line::oracle(format!("filterid {tok}"), imp));
                }
                Op::Merge { n, write, m, other_write } => {
                    use iroh_docs::sync::Capability;
                    let cap = |i: usize, w: bool| if w { Capability::Write(self.keys.namespaces[i].clone()) } else { Capability::Read(self.keys.namespaces[i].id()) };
                    let mut mine = cap(*n, *write);
                    let other = cap(*m, *other_write);
                    let show = |c: &Capability| { let (k, raw) = c.raw(); format!("{} {} {}", hex(c.id().as_bytes()), k, hex(&raw)) };
                    let before = show(&mine);
                    let args = format!("{} {}", before, show(&other));
                    let imp = match mine.merge(other.clone()) {
                        Ok(changed) => format!("ok {} {}", changed as u8, show(&mine)),
                        Err(_) => "err:namespace-mismatch".to_string(),
                    };
                    w.lines.push(Line::model(format!("capmerge {args}"), imp.clone()));
                    // specification, in the words of the property: another document's capability changes
                    // nothing; a write capability is never lost; read + write secret of the same document = write
                    let want = if m != n {
                        "err:namespace-mismatch".to_string()
                    } else if !*write && *other_write {
                        format!("ok 1 {}", show(&other))
                    } else {
                        format!("ok 0 {before}")
                    };
                    w.lines.push(Line::oracle(format!("sconst {}", want.replace(' ', "_")), imp.replace(' ', "_")));
                    if m != n && show(&mine) != before {
                        w.lines.push(Line::oracle("sconst refused-merge-changes-nothing", "refused-merge-changed-the-capability"));
                    }
                }
                Op::FilterParse { text } => {
                    let back: Result<FilterKind, _> = text.parse();
                    let imp = match back {
                        Ok(FilterKind::Exact(b)) => format!("ok x={}", hex(&b)),
                        Ok(FilterKind::Prefix(b)) => format!("ok p={}", hex(&b)),
                        Err(_) => "err".to_string(),
                    };
                    w.lines.push(Line::model(format!("filterparse {}", hex(text.as_bytes())), imp));
                }
            }
        }
        Ok(w.lines)
    }
    fn features(&self, ops: &[Op], lines: &[Line]) -> Vec<String> {
        let mut f = vec![];
        for o in ops {
            f.push(match o {
                Op::S(SOp::Open { file }) => format!("store:{}", if *file { "file" } else { "memory" }),
                Op::S(s) => format!("op:{}", format!("{s:?}").split([' ', '{']).next().unwrap_or("")),
                Op::HeadsCodec { limit, .. } => format!("op:heads-codec-{}", if limit.is_some() { "limit" } else { "nolimit" }),
                Op::HeadsDecode { .. } => "op:heads-decode".into(),
                Op::PolicyMatch { .. } => "op:policy-match".into(),
                Op::FilterText { .. } => "op:filter-text".into(),
                Op::FilterParse { .. } => "op:filter-parse".into(),
                Op::Merge { n, m, .. } => format!("op:merge-{}", if n == m { "same-document" } else { "other-document" }),
            });
        }
        for l in lines {
            if l.imp.starts_with("err") {
                f.push(format!("out:{}", l.imp.split(' ').next().unwrap()));
            }
            if l.op.starts_with("tremove") && l.imp == "ok" {
                f.push("out:removed".into());
            }
            if l.op.starts_with("tns") {
                f.push(format!("out:import-{}", l.imp));
            }
        }
        f.sort();
        f.dedup();
        f
    }
    fn nontrivial(&self, ops: &[Op], lines: &[Line]) -> bool {
        match self.id {
            "C13" => {
                lines.iter().filter(|l| l.op.starts_with("tputns") && l.imp.starts_with("inserted")).count() >= 3
                    || ops.iter().any(|o| matches!(o, Op::HeadsCodec { heads, .. } if heads.len() >= 2))
            }
            "C16" => lines.iter().any(|l| l.op.starts_with("tremove") && l.imp == "ok")
                && lines.iter().any(|l| l.op.starts_with("tputns") && l.imp.starts_with("inserted")),
            "C17" => {
                let peers: std::collections::BTreeSet<u8> = ops.iter().filter_map(|o| match o { Op::S(SOp::Peer { p, .. }) => Some(*p), _ => None }).collect();
                let regs = ops.iter().filter(|o| matches!(o, Op::S(SOp::Peer { .. }))).count();
                peers.len() > 5 || regs > peers.len()
            }
            "C18" => ops.iter().any(|o| matches!(o, Op::S(SOp::DropDerived { .. })))
                && lines.iter().filter(|l| l.op.starts_with("tputns") && l.imp.starts_with("inserted")).count() >= 2,
            "C15" => ops.iter().any(|o| match o {
                Op::S(SOp::SetPolicy { pol, .. }) | Op::PolicyMatch { pol, .. } => !pol.filters.is_empty(),
                Op::FilterText { .. } => true,
                _ => false,
            }),
            _ => lines.iter().any(|l| l.imp == "err:read-only" || l.imp == "upgraded"),
        }
    }
}
