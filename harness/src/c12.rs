//! C12 — subscribers see exactly one event per entry that actually entered the replica.
//!
//! Through the store actor (`SyncHandle`): subscribers join through `open(subscribe)` /
//! `subscribe`, leave through `unsubscribe` or by dropping their receiver; local inserts,
//! deletions, remote inserts, crafted reconciliation messages (including entries obsoleted by an
//! earlier local write) and download policies. Every channel is drained after every acknowledged
//! request.

use iroh_docs::{
    actor::{OpenOpts, SyncHandle},
    sync::{ContentStatus, Event, RecordIdentifier, SyncOutcome},
    SignedEntry,
};
use serde::{Deserialize, Serialize};

use crate::{c02::gen_key, common::*, storeops::{gen_pol, Pol}, syncmsg::*, world::*};

#[derive(Clone, Debug, Serialize, Deserialize)]
pub enum Op {
    Subscribe { s: usize },
    Unsubscribe { s: usize },
    DropReceiver { s: usize },
    Local { a: usize, key: Vec<u8>, c: usize, ts: u64 },
    Delete { a: usize, key: Vec<u8>, ts: u64 },
    /// remote insert; `bad` makes the signature invalid
    Remote { a: usize, key: Vec<u8>, c: Option<usize>, ts: u64, peer: u8, status: u8, bad: bool },
    /// a crafted message with one item part (have_local = true: no reply expected)
    Msg { entries: Vec<(usize, Vec<u8>, Option<usize>, u64, u8, bool)>, peer: u8 },
    Policy { pol: Pol },
    /// a slow subscriber: a fresh channel that holds only `cap` events is subscribed, `n` local writes
    /// are issued by another task, and the channel is read only after a pause (the writer has to wait
    /// for room: nothing may be dropped or overtaken)
    Burst {
        a: usize,
        n: usize,
        cap: usize,
        ts: u64,
        /// the writer gives up (its task is aborted) while the actor waits for room in the channel:
        /// the write it was waiting for is applied and announced all the same
        #[serde(default)]
        abandon: bool,
        /// right after the slow subscriber, another one is subscribed whose receiver is already gone: it has
        /// to be dropped from the list, the slow one (whose send is still waiting for room) must stay
        #[serde(default)]
        dead_after: bool,
    },
    /// (first op only) the document starts with the read capability
    StartReadOnly,
    /// `import_namespace` while the document is open and subscribed: `write` upgrades
    Import { write: bool },
    /// the last handle of the document is released and it is opened again; every subscriber that has not
    /// unsubscribed subscribes again *with the channel it already has*
    Reopen,
}

pub struct C12 {
    pub keys: Keys,
    /// "C12", or "C15": the same harness with histories centred on download policies (nested prefix
    /// filters, keys around them) and on entries that arrive inside reconciliation messages
    focus: &'static str,
}

impl C12 {
    pub fn new() -> Self {
        C12 { keys: Keys::new(1, 3), focus: "C12" }
    }
    pub fn policies() -> Self {
        C12 { keys: Keys::new(1, 3), focus: "C15" }
    }
}

/// keys around nested prefixes: a key can start with the shorter filter but sort after the longer one
fn policy_key(rng: &mut Rng) -> Vec<u8> {
    rng.pick(&[&b""[..], b"a", b"ab", b"abc", b"abd", b"ac", b"ad", b"b", b"ba", b"aa", b"a\xff", b"ab\x00"]).to_vec()
}

fn nested_policy(rng: &mut Rng) -> Pol {
    let mut filters: Vec<(bool, Vec<u8>)> = vec![];
    for _ in 0..rng.range(1, 4) {
        // (exact?, bytes)
        filters.push((rng.chance(1, 4), rng.pick(&[&b""[..], b"a", b"ab", b"abc", b"ac", b"b"]).to_vec()));
    }
    Pol { everything: rng.chance(1, 2), filters }
}

fn status_of(n: u8) -> ContentStatus {
    match n % 3 {
        0 => ContentStatus::Complete,
        1 => ContentStatus::Incomplete,
        _ => ContentStatus::Missing,
    }
}

fn peer_bytes(p: u8) -> [u8; 32] {
    [0x40 + p; 32]
}

pub fn event_tok(ev: &Event, tok: &dyn Fn(&SignedEntry) -> String) -> String {
    match ev {
        Event::LocalInsert { entry, .. } => format!("L~{}", tok(entry)),
        Event::RemoteInsert { entry, from, should_download, remote_content_status, .. } => format!(
            "R~{}~{}~{}~{}",
            tok(entry),
            hex(from),
            status_num(*remote_content_status),
            *should_download as u8
        ),
    }
}

impl Property for C12 {
    type Op = Op;
    fn id(&self) -> &'static str {
        self.focus
    }
    fn case_prefix(&self) -> &'static str {
        if self.focus == "C15" { "events-" } else { "" }
    }
    fn parallel(&self) -> bool {
        false // the store actor runs on its own thread: the clock hook has to be process-global
    }
    fn rule(&self) -> String {
        "histories of 3-20 requests through a SyncHandle over one open document (in a fifth of the cases it starts read-only; capabilities are imported and upgraded while it is open and subscribed): up to 4 subscriber channels joining (open/subscribe), leaving (unsubscribe) or dropping their receiver; local inserts and prefix deletions, remote inserts (valid, forged, superseded), crafted reconciliation messages whose entries are partly obsoleted by earlier local writes or invalid, download policy changes; all channels drained after every acknowledged request; non-trivial = at least one event was delivered while >= 2 subscribers were present or after a subscriber left".into()
    }
    fn corpus(&self) -> Vec<(String, Vec<Op>)> {
        vec![
            ("obsoleted-by-local-write".into(), vec![
                Op::Subscribe { s: 0 }, Op::Subscribe { s: 1 },
                Op::Local { a: 0, key: b"foo".to_vec(), c: 1, ts: 20 },
                Op::Msg { entries: vec![(0, b"foo".to_vec(), Some(0), 10, 0, false), (1, b"bar".to_vec(), Some(0), 10, 1, false)], peer: 1 },
            ]),
            ("drop-one-keeps-others".into(), vec![
                Op::Subscribe { s: 0 }, Op::Subscribe { s: 1 }, Op::Subscribe { s: 2 },
                Op::Remote { a: 0, key: b"a".to_vec(), c: Some(0), ts: 5, peer: 0, status: 0, bad: false },
                Op::DropReceiver { s: 1 },
                Op::Remote { a: 0, key: b"b".to_vec(), c: Some(0), ts: 5, peer: 1, status: 1, bad: false },
                Op::Unsubscribe { s: 0 },
                Op::Local { a: 1, key: b"c".to_vec(), c: 0, ts: 9 },
            ]),
            ("slow-subscriber-misses-nothing".into(), vec![
                Op::Subscribe { s: 0 },
                Op::Burst { a: 0, n: 6, cap: 2, ts: 30, abandon: false, dead_after: false },
                Op::Local { a: 1, key: b"after".to_vec(), c: 0, ts: 40 },
            ]),
            ("slow-subscriber-impatient-writer".into(), vec![
                Op::Subscribe { s: 0 },
                Op::Burst { a: 0, n: 6, cap: 1, ts: 30, abandon: true, dead_after: false },
                Op::Local { a: 1, key: b"after".to_vec(), c: 0, ts: 40 },
                Op::Remote { a: 2, key: b"later".to_vec(), c: Some(1), ts: 9, peer: 0, status: 0, bad: false },
            ]),
            ("slow-subscriber-next-to-a-dead-one".into(), vec![
                Op::Subscribe { s: 0 },
                Op::Burst { a: 0, n: 6, cap: 1, ts: 30, abandon: false, dead_after: true },
                Op::Local { a: 1, key: b"after".to_vec(), c: 0, ts: 40 },
            ]),
            ("rejoin-with-the-same-channel-after-the-last-close".into(), vec![
                Op::Subscribe { s: 0 }, Op::Subscribe { s: 1 },
                Op::Local { a: 0, key: b"a".to_vec(), c: 0, ts: 5 },
                Op::Reopen,
                Op::Local { a: 0, key: b"b".to_vec(), c: 1, ts: 9 },
                Op::Remote { a: 1, key: b"c".to_vec(), c: Some(0), ts: 5, peer: 0, status: 0, bad: false },
            ]),
            ("policy-decides-download-flag".into(), vec![
                Op::Subscribe { s: 0 },
                Op::Policy { pol: Pol { everything: false, filters: vec![(false, b"a".to_vec())] } },
                Op::Remote { a: 0, key: b"ab".to_vec(), c: Some(0), ts: 5, peer: 0, status: 2, bad: false },
                Op::Remote { a: 0, key: b"b".to_vec(), c: Some(0), ts: 5, peer: 0, status: 2, bad: false },
                Op::Msg { entries: vec![(1, b"ax".to_vec(), Some(0), 10, 0, false), (1, b"x".to_vec(), Some(0), 10, 1, false)], peer: 2 },
            ]),
        ]
    }
    fn generate(&self, rng: &mut Rng, _i: usize, thorough: bool) -> Vec<Op> {
        if self.focus == "C15" {
            // policies with nested prefix / exact filters; entries mostly inside reconciliation messages, some
            // of them obsolete (an earlier write at the same key is newer), so that applied entries follow
            // entries that are not applied
            let mut ops = vec![Op::Subscribe { s: 0 }, Op::Policy { pol: nested_policy(rng) }];
            for _ in 0..rng.range(3, if thorough { 24 } else { 12 }) {
                let a = rng.below(3);
                let ts = *rng.pick(&[5u64, 9, 10, 11, 20]);
                ops.push(match rng.below(10) {
                    0 | 1 => Op::Policy { pol: if rng.chance(1, 3) { gen_pol(rng) } else { nested_policy(rng) } },
                    2 => Op::Local { a, key: policy_key(rng), c: rng.below(3), ts: 20 },
                    3 | 4 => Op::Remote { a, key: policy_key(rng), c: Some(rng.below(3)), ts, peer: rng.below(3) as u8, status: rng.below(3) as u8, bad: false },
                    _ => {
                        let n = rng.range(2, 5);
                        Op::Msg {
                            entries: (0..n).map(|_| (rng.below(3), policy_key(rng), if rng.chance(1, 8) { None } else { Some(rng.below(3)) }, *rng.pick(&[5u64, 9, 10, 11, 20]), rng.below(3) as u8, rng.chance(1, 10))).collect(),
                            peer: rng.below(3) as u8,
                        }
                    }
                });
            }
            return ops;
        }
        let mut ops = vec![];
        let read_only = rng.chance(1, 5);
        if read_only {
            ops.push(Op::StartReadOnly);
        }
        if rng.chance(3, 4) {
            ops.push(Op::Subscribe { s: 0 });
        }
        for _ in 0..rng.range(3, if thorough { 40 } else { 20 }) {
            let a = rng.below(3);
            let key = gen_key(rng);
            let ts = *rng.pick(&[5u64, 9, 10, 11, 20]);
            ops.push(match rng.below(20) {
                0..=2 => Op::Subscribe { s: rng.below(4) },
                3 => Op::Unsubscribe { s: rng.below(4) },
                4 => Op::DropReceiver { s: rng.below(4) },
                5..=7 => Op::Local { a, key, c: rng.below(3), ts },
                8 => Op::Delete { a, key, ts },
                9..=13 => Op::Remote { a, key, c: if rng.chance(1, 5) { None } else { Some(rng.below(3)) }, ts, peer: rng.below(3) as u8, status: rng.below(3) as u8, bad: rng.chance(1, 6) },
                14..=17 => {
                    let n = rng.range(1, 4);
                    Op::Msg {
                        entries: (0..n).map(|_| (rng.below(3), gen_key(rng), if rng.chance(1, 5) { None } else { Some(rng.below(3)) }, *rng.pick(&[5u64, 9, 10, 11, 20]), rng.below(3) as u8, rng.chance(1, 6))).collect(),
                        peer: rng.below(3) as u8,
                    }
                }
                18 if read_only || rng.chance(1, 3) => Op::Import { write: rng.chance(2, 3) },
                18 if rng.chance(1, 2) => Op::Reopen,
                19 if rng.chance(1, 2) => Op::Burst { a, n: rng.range(2, 7), cap: rng.range(1, 3), ts: ts + 100, abandon: rng.chance(1, 2), dead_after: rng.chance(1, 2) },
                _ => Op::Policy { pol: gen_pol(rng) },
            });
        }
        ops
    }
    fn execute(&self, ops: &[Op]) -> anyhow::Result<Vec<Line>> {
        let rt = tokio::runtime::Builder::new_current_thread().enable_time().build()?;
        let ns = &self.keys.namespaces[0];
        let nsid = ns.id();
        let nshex = hex(nsid.as_bytes());
        iroh_docs::verif::set_clock_micros(Some(NOW));
        let mut store = iroh_docs::store::Store::memory();
        let read_only = matches!(ops.first(), Some(Op::StartReadOnly));
        if read_only {
            store.import_namespace(iroh_docs::sync::Capability::Read(nsid))?;
        } else {
            store.new_replica(ns.clone())?;
            store.close_replica(nsid);
        }
        for a in &self.keys.authors {
            store.import_author(a.clone())?;
        }
        let handle = SyncHandle::spawn(store, None, "c12".into());
        let mut lines = vec![if read_only {
            Line::model(format!("enew 1 {nshex} 2 {nshex}"), "ok")
        } else {
            Line::model(format!("enew 1 {nshex} 1 {}", hex(&ns.to_bytes())), "ok")
        }];
        // ground truth for forged entries, by construction
        let forged: std::cell::RefCell<Vec<SignedEntry>> = Default::default();
        let tok = |e: &SignedEntry| -> String {
            if forged.borrow().iter().any(|f| f == e) {
                with_fp(entry_tok(e, sig_tag(e), false, false), e)
            } else {
                honest_fp_tok(e)
            }
        };
        let res = rt.block_on(async {
            handle.open(nsid, OpenOpts::default().sync()).await?;
            // subscriber slots: (sender, receiver if not dropped, subscribed?)
            let mut slots: Vec<Option<(async_channel::Sender<Event>, Option<async_channel::Receiver<Event>>)>> = vec![None, None, None, None];
            let mut next_id = [0usize; 4];
            let chan_id = |s: usize, gen: usize| s * 100 + gen;
            let mut ids: Vec<Option<usize>> = vec![None; 4];
            let mut subscribed = [false; 4];
            let mut burst_counter = 0usize;
            for op in ops {
                let stable_before: Vec<bool> = (0..4).map(|s| subscribed[s] && matches!(&slots[s], Some((_, Some(_))))).collect();
                iroh_docs::verif::set_clock_micros(Some(NOW));
                // which subscribers are subscribed with a live receiver before the request
                match op {
                    Op::Subscribe { s } => {
                        // a fresh channel each time (re-subscribing a dropped or unsubscribed slot)
                        let (tx, rx) = async_channel::unbounded();
                        next_id[*s] += 1;
                        let id = chan_id(*s, next_id[*s]);
                        if let Some(old) = ids[*s] {
                            // the old channel of this slot is abandoned: unsubscribe it first
                            if let Some((otx, _)) = &slots[*s] {
                                handle.unsubscribe(nsid, otx.clone()).await?;
                                lines.push(Line::model(format!("eunsub 1 {old}"), "ok"));
                            }
                        }
                        handle.subscribe(nsid, tx.clone()).await?;
                        slots[*s] = Some((tx, Some(rx)));
                        ids[*s] = Some(id);
                        subscribed[*s] = true;
                        lines.push(Line::model(format!("esub 1 {id}"), "ok"));
                    }
                    Op::Unsubscribe { s } => {
                        if let (Some((tx, _)), Some(id)) = (&slots[*s], ids[*s]) {
                            handle.unsubscribe(nsid, tx.clone()).await?;
                            lines.push(Line::model(format!("eunsub 1 {id}"), "ok"));
                            subscribed[*s] = false;
                            // keep the receiver: it must stay silent from now on
                        }
                    }
                    Op::DropReceiver { s } => {
                        if let (Some((_, rx)), Some(id)) = (&mut slots[*s], ids[*s]) {
                            if rx.take().is_some() {
                                lines.push(Line::model(format!("edrop 1 {id}"), "ok"));
                            }
                        }
                    }
                    Op::StartReadOnly => {}
                    Op::Reopen => {
                        for s in 0..4 {
                            if let (true, Some(id)) = (subscribed[s], ids[s]) {
                                // closing the replica forgets its subscribers
                                lines.push(Line::model(format!("eunsub 1 {id}"), "ok"));
                            }
                        }
                        handle.close(nsid).await?;
                        handle.open(nsid, OpenOpts::default().sync()).await?;
                        for s in 0..4 {
                            if let (true, Some((tx, _)), Some(id)) = (subscribed[s], &slots[s], ids[s]) {
                                handle.subscribe(nsid, tx.clone()).await?;
                                lines.push(Line::model(format!("esub 1 {id}"), "ok"));
                            }
                        }
                    }
                    Op::Import { write } => {
                        let cap = if *write { iroh_docs::sync::Capability::Write(ns.clone()) } else { iroh_docs::sync::Capability::Read(nsid) };
                        let (kind, raw) = cap.raw();
                        let imp = match handle.import_namespace(cap).await { Ok(_) => "ok".to_string(), Err(e) => format!("err:{e}") };
                        lines.push(Line::model(format!("eimport 1 {nshex} {kind} {}", hex(&raw)), imp));
                    }
                    Op::Local { a, key, c, ts } => {
                        let author = &self.keys.authors[*a];
                        let (hash, len) = content(*c);
                        iroh_docs::verif::set_clock_micros(Some(*ts));
                        let r = handle.insert_local(nsid, author.id(), key.clone().into(), hash, len).await;
                        let e = make_entry(ns, author, key, Some(*c), *ts);
                        let imp = match r {
                            Ok(()) => "inserted".to_string(),
                            Err(e) if e.to_string().contains("newer entry exists") || e.to_string().contains("A newer entry") => "notinserted".to_string(),
                            Err(e) if format!("{e:#}").to_lowercase().contains("read only") || format!("{e:#}").to_lowercase().contains("read access only") => "err:read-only".to_string(),
                            Err(e) => format!("err:{e}"),
                        };
                        lines.push(Line::model(format!("elocalres 1 {}", tok(&e)), imp));
                    }
                    Op::Delete { a, key, ts } => {
                        let author = &self.keys.authors[*a];
                        iroh_docs::verif::set_clock_micros(Some(*ts));
                        let r = handle.delete_prefix(nsid, author.id(), key.clone().into()).await;
                        let e = make_entry(ns, author, key, None, *ts);
                        let imp = match r {
                            Ok(n) => format!("inserted {n}"),
                            Err(e) if e.to_string().contains("newer entry") => "notinserted".to_string(),
                            Err(e) if format!("{e:#}").to_lowercase().contains("read only") || format!("{e:#}").to_lowercase().contains("read access only") => "err:read-only".to_string(),
                            Err(e) => format!("err:{e}"),
                        };
                        lines.push(Line::model(format!("elocal 1 {}", tok(&e)), imp));
                    }
                    Op::Remote { a, key, c, ts, peer, status, bad } => {
                        let author = &self.keys.authors[*a];
                        let mut e = make_entry(ns, author, key, *c, *ts);
                        if *bad {
                            // signatures of a different entry
                            let other = make_entry(ns, author, b"other-key-for-signature", *c, *ts);
                            let a = postcard::to_stdvec(&other).unwrap();
                            let b = postcard::to_stdvec(&e).unwrap();
                            let mut v = a[..128].to_vec();
                            v.extend_from_slice(&b[128..]);
                            e = postcard::from_bytes(&v).unwrap();
                            forged.borrow_mut().push(e.clone());
                        }
                        let r = handle.insert_remote(nsid, e.clone(), peer_bytes(*peer), status_of(*status)).await;
                        let imp = match r {
                            Ok(()) => "inserted".to_string(),
                            Err(err) => {
                                let s = format!("{err:#}");
                                if s.contains("newer entry") { "notinserted".into() }
                                else if s.contains("signature") || s.contains("validation") { "err:validation".into() }
                                else { format!("err:{s}") }
                            }
                        };
                        lines.push(Line::model(
                            format!("eremoteres 1 {nshex} {NOW} {} {} {}", hex(&peer_bytes(*peer)), status_num(status_of(*status)), tok(&e)),
                            imp,
                        ));
                    }
                    Op::Msg { entries, peer } => {
                        let mut values = vec![];
                        for (a, key, c, ts, status, bad) in entries {
                            let author = &self.keys.authors[*a];
                            let mut e = make_entry(ns, author, key, *c, *ts);
                            if *bad {
                                let other = make_entry(ns, author, b"other-key-for-signature", *c, *ts);
                                let a = postcard::to_stdvec(&other).unwrap();
                                let b = postcard::to_stdvec(&e).unwrap();
                                let mut v = a[..128].to_vec();
                                v.extend_from_slice(&b[128..]);
                                e = postcard::from_bytes(&v).unwrap();
                                forged.borrow_mut().push(e.clone());
                            }
                            values.push((e, status_of(*status)));
                        }
                        let anchor = RecordIdentifier::new(nsid, self.keys.authors[0].id(), b"");
                        let m = MMsg { parts: vec![MPart::RangeItem(MItem { range: MRange { x: anchor.clone(), y: anchor }, values, have_local: true })] };
                        let (reply, outcome) = handle.sync_process_message(nsid, m.to_real()?, peer_bytes(*peer), SyncOutcome::default()).await?;
                        // inserted entries are observed through the events below; the reply line
                        // carries reply and counters only
                        let line = format!(
                            "reply {} out {} {} {}",
                            reply.as_ref().map(|r| msg_tok(&MMsg::from_real(r), &tok)).unwrap_or("none".into()),
                            outcome.num_recv, outcome.num_sent, heads_map_tok(&outcome.heads_received)
                        );
                        lines.push(Line::model(format!("emsgres 1 {nshex} {NOW} {} {}", hex(&peer_bytes(*peer)), msg_tok(&m, &tok)), line));
                    }
                    Op::Burst { a, n, cap, ts, abandon, dead_after } => {
                        let author = self.keys.authors[*a].clone();
                        let (tx, rx) = async_channel::bounded::<Event>(*cap);
                        burst_counter += 1;
                        let id = 900 + burst_counter;
                        handle.subscribe(nsid, tx.clone()).await?;
                        lines.push(Line::model(format!("esub 1 {id}"), "ok"));
                        // a second subscriber, registered after the slow one, whose receiver goes away while the
                        // slow one's channel is full (the send to the slow one is then still waiting for room when
                        // the send to the dead one fails)
                        let mut dying = None;
                        if *dead_after {
                            let (dtx, drx) = async_channel::unbounded::<Event>();
                            handle.subscribe(nsid, dtx).await?;
                            lines.push(Line::model(format!("esub 1 {}", id + 50), "ok"));
                            lines.push(Line::model(format!("edrop 1 {}", id + 50), "ok"));
                            dying = Some(drx);
                        }
                        iroh_docs::verif::set_clock_micros(Some(*ts));
                        // the writer: n local writes to fresh keys, one after the other
                        let writer = {
                            let handle = handle.clone();
                            let author_id = author.id();
                            let n = *n;
                            let tag = burst_counter;
                            tokio::spawn(async move {
                                let mut res = vec![];
                                for i in 0..n {
                                    let (hash, len) = content(i % 3);
                                    let key = format!("burst{tag}-{i}").into_bytes();
                                    res.push(handle.insert_local(nsid, author_id, key.into(), hash, len).await.map_err(|e| format!("{e:#}")));
                                }
                                res
                            })
                        };
                        // the slow reader
                        tokio::time::sleep(std::time::Duration::from_millis(40)).await;
                        let lagging = dying.is_some();
                        drop(dying.take());
                        if *abandon {
                            writer.abort();
                            // the reader is still not reading: the actor learns that the writer is gone while
                            // it waits for room
                            tokio::time::sleep(std::time::Duration::from_millis(60)).await;
                        }
                        let mut got = vec![];
                        let deadline = std::time::Instant::now() + std::time::Duration::from_secs(30);
                        let mut writer = writer;
                        let results = loop {
                            tokio::select! {
                                r = &mut writer => break match r {
                                    Ok(v) => Some(v),
                                    Err(e) if e.is_cancelled() => None,
                                    Err(e) => anyhow::bail!("writer: {e}"),
                                },
                                ev = rx.recv() => {
                                    if let Ok(ev) = ev { got.push(event_tok(&ev, &tok)); }
                                    if lagging {
                                        // keep lagging: the channel is full again before the next event is sent
                                        tokio::time::sleep(std::time::Duration::from_millis(4)).await;
                                    }
                                }
                                _ = tokio::time::sleep_until(deadline.into()) => anyhow::bail!("burst did not finish"),
                            }
                        };
                        while let Ok(ev) = rx.try_recv() {
                            got.push(event_tok(&ev, &tok));
                        }
                        // an abandoned writer: what reached the actor is what the store holds afterwards
                        let results: Vec<Result<(), String>> = match results {
                            Some(v) => v,
                            None => {
                                // let the actor finish the write it was busy with: keep reading until nothing comes any more
                                while let Ok(Ok(ev)) = tokio::time::timeout(std::time::Duration::from_millis(40), rx.recv()).await {
                                    got.push(event_tok(&ev, &tok));
                                }
                                let mut v = vec![];
                                for i in 0..*n {
                                    let key = format!("burst{burst_counter}-{i}").into_bytes();
                                    if handle.get_exact(nsid, author.id(), key.into(), true).await?.is_some() {
                                        v.push(Ok(()));
                                    }
                                }
                                // every applied write owes the subscriber an event: wait for the ones still under way
                                while got.len() < v.len() {
                                    match tokio::time::timeout(std::time::Duration::from_secs(10), rx.recv()).await {
                                        Ok(Ok(ev)) => got.push(event_tok(&ev, &tok)),
                                        _ => break,
                                    }
                                }
                                v
                            }
                        };
                        let abandoned = *abandon;
                        let mut expected = vec![];
                        for (i, r) in results.iter().enumerate() {
                            let key = format!("burst{burst_counter}-{i}").into_bytes();
                            let e = make_entry(ns, &author, &key, Some(i % 3), *ts);
                            let imp = match r {
                                Ok(()) => { expected.push(format!("L~{}", tok(&e))); "inserted".to_string() }
                                Err(s) if s.to_lowercase().contains("read only") || s.to_lowercase().contains("read access only") => "err:read-only".to_string(),
                                Err(s) if s.contains("newer entry") => "notinserted".to_string(),
                                Err(s) => format!("err:{s}"),
                            };
                            if abandoned {
                                // (the writer did not wait for the replies)
                                lines.push(Line::model(format!("abandoned elocalres 1 {}", tok(&e)), "abandoned"));
                            } else {
                                lines.push(Line::model(format!("elocalres 1 {}", tok(&e)), imp));
                            }
                        }
                        lines.push(Line::model(format!("einbox 1 {id}"), format!("events {} {}", got.len(), got.join(";"))));
                        // specification: the slow subscriber saw every acknowledged write, once, in order
                        lines.push(Line::oracle("sconst slow-subscriber-saw-every-write-in-order", if got == expected { "slow-subscriber-saw-every-write-in-order".to_string() } else { format!("slow-subscriber-saw-{}-of-{}-events", got.len(), expected.len()) }));
                        handle.unsubscribe(nsid, tx.clone()).await?;
                        lines.push(Line::model(format!("eunsub 1 {id}"), "ok"));
                    }
                    Op::Policy { pol } => {
                        handle.set_download_policy(nsid, pol.real()).await?;
                        lines.push(Line::model(format!("epolicy 1 {nshex} {}", pol.tok()), "ok"));
                    }
                }
                // drain every channel that still has a receiver
                let mut stable_view: Option<String> = None;
                let mut stable_views_agree = true;
                for s in 0..4 {
                    if let (Some((_, Some(rx))), Some(id)) = (&slots[s], ids[s]) {
                        let mut got = vec![];
                        while let Ok(ev) = rx.try_recv() {
                            got.push(event_tok(&ev, &tok));
                        }
                        let imp = format!("events {} {}", got.len(), got.join(";"));
                        lines.push(Line::model(format!("einbox 1 {id}"), imp.clone()));
                        // specification: a channel that was unsubscribed before this request stays silent
                        if !subscribed[s] && !stable_before[s] {
                            lines.push(Line::oracle("sconst silent-after-unsubscribe", if got.is_empty() { "silent-after-unsubscribe".to_string() } else { format!("unsubscribed-channel-received-{}-events", got.len()) }));
                        }
                        // subscribed with a live receiver before and after the request
                        if stable_before[s] && subscribed[s] {
                            match &stable_view {
                                None => stable_view = Some(imp),
                                Some(v) => stable_views_agree &= *v == imp,
                            }
                        }
                    }
                }
                // specification: such a subscriber saw exactly the entries applied by this request
                match stable_view {
                    Some(v) => {
                        lines.push(Line::oracle("sdelta 1", v));
                        lines.push(Line::oracle("sconst subscribers-agree", if stable_views_agree { "subscribers-agree" } else { "subscribers-differ" }));
                    }
                    None => lines.push(Line::model("sdeltaskip 1", "ok")),
                }
            }
            // the store afterwards
            anyhow::Ok(())
        });
        iroh_docs::verif::set_clock_micros(None);
        let store = rt.block_on(handle.shutdown())?;
        res?;
        let mut store = store;
        let mut toks = vec![];
        for e in store.get_many(nsid, iroh_docs::store::Query::all().include_empty())? {
            toks.push(tok(&e?));
        }
        lines.push(Line::model(format!("edump 1 {nshex}"), entries_line(&toks)));
        Ok(lines)
    }
    fn features(&self, ops: &[Op], lines: &[Line]) -> Vec<String> {
        let mut f = vec![];
        for o in ops {
            f.push(format!("op:{}", format!("{o:?}").split([' ', '{']).next().unwrap_or("")));
        }
        let delivered = lines.iter().filter(|l| l.op.starts_with("einbox") && !l.imp.starts_with("events 0")).count();
        f.push(format!("deliveries:{}", match delivered { 0 => "0", 1..=3 => "1-3", 4..=10 => "4-10", _ => "11+" }));
        for l in lines {
            if l.op.starts_with("eremoteres") || l.op.starts_with("elocal") {
                f.push(format!("out:{}", l.imp.split(' ').next().unwrap()));
            }
        }
        f.sort();
        f.dedup();
        f
    }
    fn nontrivial(&self, ops: &[Op], lines: &[Line]) -> bool {
        let subs = ops.iter().filter(|o| matches!(o, Op::Subscribe { .. })).count();
        let left = ops.iter().any(|o| matches!(o, Op::Unsubscribe { .. } | Op::DropReceiver { .. }));
        lines.iter().any(|l| l.op.starts_with("einbox") && !l.imp.starts_with("events 0")) && (subs >= 2 || left)
    }
}
