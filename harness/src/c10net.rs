//! C10 over a real connection: `net::connect_and_sync` on one endpoint, `net::handle_connection`
//! on the other (two real endpoints on the loopback interface, two store actors).
//!
//! The accept callback allows or declines (not found / already syncing / internal error); the
//! accepting replica is open with sync, open without sync, or closed. Specifications (the clauses
//! of C10 that concern a whole connection): both ends finish with success or a reported error; a
//! declined request is reported with its reason on both sides and changes neither store; while
//! the accepting replica does not sync, nothing enters its store and the acceptor reports an error; on success the counters mirror
//! and both stores hold the join.

use iroh::endpoint::{presets, Endpoint};
use iroh_docs::{
    actor::{OpenOpts, SyncHandle},
    net::{AbortReason, AcceptError, AcceptOutcome, ConnectError},
    sync::ContentStatus,
};
use serde::{Deserialize, Serialize};

use crate::{c02::gen_key, common::*, syncmsg::*, world::*};

#[derive(Clone, Debug, Serialize, Deserialize)]
pub enum Op {
    /// `decision`: 0 allow, 1 not found, 2 already syncing, 3 internal error;
    /// `acceptor`: 0 open with sync, 1 open without sync, 2 not open
    Cfg { decision: u8, acceptor: u8, file_a: bool, file_b: bool },
    /// remote insert into the initiator's replica (0), the acceptor's (1) or both (2)
    Put { side: u8, a: usize, key: Vec<u8>, c: Option<usize>, ts: u64 },
}

pub struct C10Net {
    pub keys: Keys,
}

impl C10Net {
    pub fn new() -> Self {
        C10Net { keys: Keys::new(1, 3) }
    }
}

fn reason_name(r: AbortReason) -> &'static str {
    match r {
        AbortReason::NotFound => "not-found",
        AbortReason::AlreadySyncing => "already-syncing",
        AbortReason::InternalServerError => "internal-error",
        #[allow(unreachable_patterns)]
        _ => "unknown-reason",
    }
}

impl Property for C10Net {
    type Op = Op;
    fn id(&self) -> &'static str {
        "C10"
    }
    fn case_prefix(&self) -> &'static str {
        "net-"
    }
    fn rule(&self) -> String {
        "REAL CONNECTION PATH: pairs of replica states (0-8 remote inserts each plus shared entries, 3 authors, edge keys, ties, deletion markers; memory and file stores) on two real endpoints connected over the loopback interface; the initiator runs net::connect_and_sync, the acceptor net::handle_connection with an accept callback that allows or declines (not found, already syncing, internal error), its replica open with sync, open without sync, or not open; non-trivial = a decline, a non-syncing acceptor, or a successful session that transfers entries".into()
    }
    fn corpus(&self) -> Vec<(String, Vec<Op>)> {
        let p = |side: u8, a: usize, k: &[u8], c: Option<usize>, ts: u64| Op::Put { side, a, key: k.to_vec(), c, ts };
        let mut v = vec![];
        for decision in 0..4u8 {
            for acceptor in 0..3u8 {
                v.push((
                    format!("net-decision{decision}-acceptor{acceptor}"),
                    vec![Op::Cfg { decision, acceptor, file_a: false, file_b: decision == 0 }, p(0, 0, b"a", Some(0), 5), p(1, 1, b"b", Some(1), 9), p(1, 0, b"a", None, 10), p(2, 2, b"", Some(2), 5)],
                ));
            }
        }
        v
    }
    fn generate(&self, rng: &mut Rng, _i: usize, thorough: bool) -> Vec<Op> {
        let mut ops = vec![Op::Cfg {
            decision: if rng.chance(1, 2) { 0 } else { rng.below(4) as u8 },
            acceptor: if rng.chance(2, 3) { 0 } else { rng.below(3) as u8 },
            file_a: rng.chance(1, 6),
            file_b: rng.chance(1, 6),
        }];
        let max = if thorough { 16 } else { 8 };
        let mut puts = Vec::new();
        for (side, n) in [(0u8, rng.range(0, max)), (1, rng.range(0, max)), (2, rng.range(0, 4))] {
            for _ in 0..n {
                puts.push(Op::Put { side, a: rng.below(3), key: gen_key(rng), c: if rng.chance(1, 4) { None } else { Some(rng.below(3)) }, ts: *rng.pick(&crate::c02::TIMES) });
            }
        }
        rng.shuffle(&mut puts);
        ops.extend(puts);
        ops
    }
    fn execute(&self, ops: &[Op]) -> anyhow::Result<Vec<Line>> {
        let (decision, acceptor, file_a, file_b) = match ops.first() {
            Some(Op::Cfg { decision, acceptor, file_a, file_b }) => (*decision, *acceptor, *file_a, *file_b),
            _ => (0, 0, false, false),
        };
        let rt0 = rt();
        set_clock(NOW);
        iroh_docs::verif::set_clock_micros(Some(NOW));
        let ns = &self.keys.namespaces[0];
        let nsid = ns.id();
        let nshex = hex(nsid.as_bytes());
        let mut sa = RealStore::new(file_a)?;
        let mut sb = RealStore::new(file_b)?;
        let mut lines = vec![];
        for (sid, s) in [(1, &mut sa), (2, &mut sb)] {
            s.store.new_replica(ns.clone())?;
            s.store.close_replica(nsid);
            lines.push(Line::model(format!("tnew {sid}"), "ok"));
            lines.push(Line::model(format!("tns {sid} {nshex} 1 {}", hex(&ns.to_bytes())), "inserted"));
        }
        for op in ops {
            if let Op::Put { side, a, key, c, ts } = op {
                let e = make_entry(ns, &self.keys.authors[*a], key, *c, *ts);
                for (sid, s) in [(1usize, &mut sa), (2, &mut sb)] {
                    if *side == 2 || *side as usize == sid - 1 {
                        let mut r = s.store.open_replica(&nsid)?;
                        let res = rt0.block_on(r.insert_remote_entry(e.clone(), PEER, ContentStatus::Missing));
                        drop(r);
                        s.store.close_replica(nsid);
                        lines.push(Line::model(format!("tput {sid} {}", honest_fp_tok(&e)), insert_result(res)));
                    }
                }
            }
        }
        lines.push(Line::model(format!("snap a 1 {nshex}"), "ok"));
        lines.push(Line::model(format!("snap b 2 {nshex}"), "ok"));
        let (fa, fb) = (sa.file, sb.file);
        let rt = tokio::runtime::Builder::new_multi_thread().worker_threads(2).enable_all().build()?;
        let h_init = SyncHandle::spawn(sa.store, None, "c10net-init".into());
        let h_resp = SyncHandle::spawn(sb.store, None, "c10net-resp".into());
        let outcome = match decision {
            0 => AcceptOutcome::Allow,
            1 => AcceptOutcome::Reject(AbortReason::NotFound),
            2 => AcceptOutcome::Reject(AbortReason::AlreadySyncing),
            _ => AcceptOutcome::Reject(AbortReason::InternalServerError),
        };
        type Ends = (Result<(u64, u64), String>, Result<(u64, u64), String>);
        let res: anyhow::Result<Option<Ends>> = rt.block_on(async {
            h_init.open(nsid, OpenOpts::default().sync()).await?;
            match acceptor {
                0 => h_resp.open(nsid, OpenOpts::default().sync()).await?,
                1 => h_resp.open(nsid, OpenOpts::default()).await?,
                _ => {}
            }
            let bind = |seed: u8, alpn: bool| async move {
                let mut b = Endpoint::builder(presets::Minimal).secret_key(iroh::SecretKey::from_bytes(&[seed; 32]));
                if alpn {
                    b = b.alpns(vec![iroh_docs::ALPN.to_vec()]);
                }
                b.bind().await.map_err(|e| anyhow::anyhow!("bind: {e}"))
            };
            let ep_init = bind(7, false).await?;
            let ep_resp = bind(8, true).await?;
            let port = ep_resp.bound_sockets().iter().find(|a| a.is_ipv4()).map(|a| a.port()).ok_or_else(|| anyhow::anyhow!("no ipv4 socket"))?;
            let addr = iroh::EndpointAddr::new(ep_resp.id()).with_ip_addr(std::net::SocketAddr::from(([127, 0, 0, 1], port)));
            let hr = h_resp.clone();
            let ep_resp2 = ep_resp.clone();
            let bob = async move {
                let incoming = ep_resp2.accept().await.ok_or_else(|| "endpoint closed".to_string())?;
                let conn = incoming.await.map_err(|e| format!("accept: {e:#}"))?;
                let oc = outcome.clone();
                let r = iroh_docs::net::handle_connection(hr, conn, move |_ns, _peer| std::future::ready(oc.clone()), None).await;
                match r {
                    Ok(f) => Ok((f.outcome.num_recv as u64, f.outcome.num_sent as u64)),
                    Err(AcceptError::Abort { reason, .. }) => Err(format!("abort:{}", reason_name(reason))),
                    Err(e) => Err(format!("error:{e:#}")),
                }
            };
            let hi = h_init.clone();
            let ep_init2 = ep_init.clone();
            let alice = async move {
                match iroh_docs::net::connect_and_sync(&ep_init2, &hi, nsid, addr, None).await {
                    Ok(f) => Ok((f.outcome.num_recv as u64, f.outcome.num_sent as u64)),
                    Err(ConnectError::RemoteAbort(reason)) => Err(format!("remote-abort:{}", reason_name(reason))),
                    Err(e) => Err(format!("error:{e:#}")),
                }
            };
            let both = tokio::time::timeout(std::time::Duration::from_secs(60), async { tokio::join!(alice, bob) }).await;
            ep_init.close().await;
            ep_resp.close().await;
            Ok(both.ok())
        });
        let ends = res?;
        // specification: both ends finish, with success or a reported error
        lines.push(Line::oracle("sconst both-ends-finished", if ends.is_some() { "both-ends-finished" } else { "an-end-never-finished" }));
        let mut init_store = rt.block_on(h_init.shutdown())?;
        let mut resp_store = rt.block_on(h_resp.shutdown())?;
        iroh_docs::verif::set_clock_micros(None);
        let mut dump = |store: &mut iroh_docs::store::Store| -> anyhow::Result<String> {
            let mut toks = Vec::new();
            for e in store.get_many(nsid, iroh_docs::store::Query::all().include_empty())? {
                let e = e?;
                toks.push(with_fp(stored_tok(&e), &e));
            }
            Ok(entries_line(&toks))
        };
        let da = dump(&mut init_store)?;
        let db = dump(&mut resp_store)?;
        if let Some((alice, bob)) = ends {
            if decision != 0 {
                // a declined request: reported with its reason on both sides, nothing changes
                let want = match decision { 1 => "not-found", 2 => "already-syncing", _ => "internal-error" };
                let got = match (&alice, &bob) {
                    (Err(a), Err(b)) if *a == format!("remote-abort:{want}") && *b == format!("abort:{want}") => format!("declined:{want}"),
                    (a, b) => format!("initiator={a:?},acceptor={b:?}"),
                };
                lines.push(Line::oracle(format!("sconst declined:{want}"), got));
                lines.push(Line::oracle("sjoin a", da));
                lines.push(Line::oracle("sjoin b", db));
            } else if acceptor != 0 {
                // the accepting replica does not sync: nothing enters its store and the acceptor reports
                // an error (the initiator sees the stream end, which it reports as an empty success)
                lines.push(Line::oracle("sjoin b", db));
                let got = if bob.is_err() { "acceptor-reports-error".to_string() } else { format!("initiator={alice:?},acceptor={bob:?}") };
                lines.push(Line::oracle("sconst acceptor-reports-error", got));
            } else {
                let line = match (&alice, &bob) {
                    (Ok((ar, as_)), Ok((br, bs))) => {
                        if ar == bs && as_ == br { "mirror=1".to_string() } else { format!("mirror=0:initiator-recv/sent={ar}/{as_},acceptor-recv/sent={br}/{bs}") }
                    }
                    (a, b) => format!("session-failed:initiator={a:?},acceptor={b:?}"),
                };
                lines.push(Line::oracle("sconst mirror=1", line));
                lines.push(Line::oracle("sjoin a b", da));
                lines.push(Line::oracle("sjoin a b", db));
            }
        }
        drop((fa, fb));
        Ok(lines)
    }
    fn features(&self, ops: &[Op], lines: &[Line]) -> Vec<String> {
        let mut f = vec![];
        if let Some(Op::Cfg { decision, acceptor, file_a, file_b }) = ops.first() {
            f.push(format!("decision:{decision}"));
            f.push(format!("acceptor:{acceptor}"));
            if *file_a || *file_b {
                f.push("file-store".into());
            }
        }
        for l in lines {
            if l.oracle && l.op.starts_with("sconst") {
                f.push(format!("spec:{}", l.op.split(' ').nth(1).unwrap_or("").split(':').next().unwrap_or("")));
            }
        }
        f.sort();
        f.dedup();
        f
    }
    fn nontrivial(&self, ops: &[Op], _lines: &[Line]) -> bool {
        match ops.first() {
            Some(Op::Cfg { decision, acceptor, .. }) => *decision != 0 || *acceptor != 0 || ops.len() >= 3,
            _ => false,
        }
    }
}
