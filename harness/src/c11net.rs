//! C11 where the coordination layer meets the network layer: what `net::handle_connection` reports
//! for a *declined* request is handed to the real `LiveActor::on_sync_via_accept_finished`.
//!
//! The protocol model (`Model/Coord.lean`) lets a declined request complete as a decline and
//! nothing else; the theorems `at_most_one_session` and `slot_is_always_freed` rest on that. Here
//! that assumption is checked on the code: one real session slot is held by an accepted session
//! that is still in progress, a second request arrives over a real loopback QUIC connection and is
//! declined by the real `accept_sync_request`, the dialer then behaves well or badly (finishes its
//! streams, drops the connection right after the decline, drops it before reading), and whatever
//! `handle_connection` returns goes to the real completion handler. Specification: the session in
//! progress is still in progress afterwards; it is freed when it ends.

use std::sync::Arc;

use iroh::endpoint::{presets, Endpoint};
use iroh_docs::{
    actor::{OpenOpts, SyncHandle},
    engine::verif_live::Coordinator,
    net::{
        verif_codec::{decode_chunks, encode_frame, Decoded, Frame},
        AcceptError, AcceptOutcome, SyncFinished,
    },
    NamespaceSecret, SyncOutcome,
};
use serde::{Deserialize, Serialize};

use crate::common::*;

#[derive(Clone, Debug, Serialize, Deserialize)]
pub enum Op {
    /// `syncing`: the acceptor syncs the document (a request is then declined as already syncing,
    /// because an earlier accepted session is in progress) or does not (declined as not found);
    /// `dialer`: 0 finishes its streams after the decline, 1 drops the connection right after
    /// reading the decline, 2 drops it right after sending the request, 3 sends stray bytes after
    /// the request and then drops
    Case { syncing: bool, dialer: u8 },
}

pub struct C11Net;

impl C11Net {
    pub fn new() -> Self {
        C11Net
    }
}

struct Resp {
    coord: Coordinator,
}

impl Property for C11Net {
    type Op = Op;
    fn id(&self) -> &'static str {
        "C11"
    }
    fn case_prefix(&self) -> &'static str {
        "net-"
    }
    fn parallel(&self) -> bool {
        false
    }
    fn rule(&self) -> String {
        "NETWORK BOUNDARY: one request over a real loopback QUIC connection to a node whose slot for that peer is held by an accepted session in progress (or that does not sync the document); the real accept_sync_request declines it; the dialer finishes cleanly, drops the connection right after the decline, right after its request, or after stray bytes; the result of net::handle_connection is given to the real on_sync_via_accept_finished; specification: the session in progress stays in progress, and its slot is freed when it ends; non-trivial = the dialer misbehaved".into()
    }
    fn corpus(&self) -> Vec<(String, Vec<Op>)> {
        let mut v = vec![];
        for syncing in [true, false] {
            for dialer in 0..4u8 {
                v.push((format!("net-declined-syncing{}-dialer{dialer}", syncing as u8), vec![Op::Case { syncing, dialer }]));
            }
        }
        v
    }
    fn generate(&self, rng: &mut Rng, _i: usize, _thorough: bool) -> Vec<Op> {
        vec![Op::Case { syncing: rng.chance(3, 4), dialer: rng.below(4) as u8 }]
    }
    fn execute(&self, ops: &[Op]) -> anyhow::Result<Vec<Line>> {
        let Some(Op::Case { syncing, dialer }) = ops.first().cloned() else { return Ok(vec![]) };
        let rt = tokio::runtime::Builder::new_multi_thread().worker_threads(2).enable_all().build()?;
        let mut lines = vec![];
        let res: anyhow::Result<()> = rt.block_on(async {
            let ns = NamespaceSecret::from_bytes(&[0x5C; 32]);
            let nsid = ns.id();
            let bind = |seed: u8, alpn: bool| async move {
                let mut b = Endpoint::builder(presets::Minimal).secret_key(iroh::SecretKey::from_bytes(&[seed; 32]));
                if alpn {
                    b = b.alpns(vec![iroh_docs::ALPN.to_vec()]);
                }
                b.bind().await.map_err(|e| anyhow::anyhow!("bind: {e}"))
            };
            let ep_init = bind(0x17, false).await?;
            let ep_resp = bind(0x18, true).await?;
            let init_id = ep_init.id();
            // the two store actors
            let h_init = SyncHandle::spawn(iroh_docs::store::Store::memory(), None, "c11net-init".into());
            let h_resp = SyncHandle::spawn(iroh_docs::store::Store::memory(), None, "c11net-resp".into());
            for h in [&h_init, &h_resp] {
                h.import_namespace(iroh_docs::sync::Capability::Write(ns.clone())).await?;
            }
            h_init.open(nsid, OpenOpts::default().sync()).await?;
            // the accepting node's live actor
            let gossip = iroh_gossip::net::Gossip::builder().spawn(ep_resp.clone());
            let blobs = iroh_blobs::store::mem::MemStore::new();
            let downloader = blobs.downloader(&ep_resp);
            let mut coord = Coordinator::new(h_resp.clone(), ep_resp.clone(), gossip, (*blobs).clone(), downloader)?;
            if syncing {
                coord.start_sync(nsid).await?;
                // an earlier request of the same peer was accepted; its session is in progress
                anyhow::ensure!(matches!(coord.accept_sync_request(nsid, init_id), AcceptOutcome::Allow), "first request not accepted");
            }
            let before = coord.snapshot(nsid, init_id).map(|s| s.0);
            let resp = Arc::new(tokio::sync::Mutex::new(Resp { coord }));
            let port = ep_resp.bound_sockets().iter().find(|a| a.is_ipv4()).map(|a| a.port()).ok_or_else(|| anyhow::anyhow!("no ipv4 socket"))?;
            let addr = iroh::EndpointAddr::new(ep_resp.id()).with_ip_addr(std::net::SocketAddr::from(([127, 0, 0, 1], port)));
            // acceptor
            let resp2 = resp.clone();
            let hr = h_resp.clone();
            let ep_resp2 = ep_resp.clone();
            let bob = async move {
                let incoming = ep_resp2.accept().await.ok_or_else(|| anyhow::anyhow!("endpoint closed"))?;
                let conn = incoming.await.map_err(|e| anyhow::anyhow!("accept: {e:#}"))?;
                let cb_resp = resp2.clone();
                let r = iroh_docs::net::handle_connection(
                    hr,
                    conn,
                    move |ns, peer| {
                        let cb_resp = cb_resp.clone();
                        async move { cb_resp.lock().await.coord.accept_sync_request(ns, peer) }
                    },
                    None,
                )
                .await;
                anyhow::Ok(r)
            };
            // the dialer speaks the protocol by hand
            let hi = h_init.clone();
            let ep_init2 = ep_init.clone();
            let alice = async move {
                let conn = ep_init2.connect(addr, iroh_docs::ALPN).await.map_err(|e| anyhow::anyhow!("connect: {e:#}"))?;
                let (mut send, mut recv) = conn.open_bi().await.map_err(|e| anyhow::anyhow!("open_bi: {e:#}"))?;
                let message = hi.sync_initial_message(nsid).await?;
                let frame = encode_frame(Frame::Init { namespace: nsid, message })?;
                send.write_all(&frame).await.map_err(|e| anyhow::anyhow!("write: {e:#}"))?;
                let mut seen = "nothing".to_string();
                if dialer == 3 {
                    let _ = send.write_all(&[0xFF, 0xFF, 0xFF, 0xFF, 1, 2, 3]).await;
                }
                if dialer != 2 && dialer != 3 {
                    // read the acceptor's first frame
                    let mut buf = vec![];
                    let deadline = tokio::time::Instant::now() + std::time::Duration::from_secs(20);
                    loop {
                        let mut chunk = vec![0u8; 4096];
                        match tokio::time::timeout_at(deadline, recv.read(&mut chunk)).await {
                            Ok(Ok(Some(n))) => buf.extend_from_slice(&chunk[..n]),
                            _ => break,
                        }
                        if let Some(Decoded::Frame(f)) = decode_chunks(&[buf.clone()]).0.into_iter().next() {
                            seen = match f {
                                Frame::Abort { reason } => format!("abort:{reason:?}"),
                                Frame::Sync(_) => "sync".into(),
                                Frame::Init { .. } => "init".into(),
                            };
                            break;
                        }
                    }
                }
                if dialer == 0 {
                    let _ = send.finish();
                    let _ = tokio::time::timeout(std::time::Duration::from_secs(5), recv.read_to_end(1 << 20)).await;
                    let _ = tokio::time::timeout(std::time::Duration::from_secs(5), send.stopped()).await;
                    conn.close(0u32.into(), b"done");
                } else {
                    // a dialer that goes away without finishing its streams
                    conn.close(7u32.into(), b"gone");
                }
                anyhow::Ok(seen)
            };
            let both = tokio::time::timeout(std::time::Duration::from_secs(60), async { tokio::join!(alice, bob) }).await;
            let (seen, result) = match both {
                Ok((a, b)) => (a?, b?),
                Err(_) => {
                    lines.push(Line::oracle("sconst both-ends-finished", "an-end-never-finished"));
                    return Ok(());
                }
            };
            let shown = match &result {
                Ok(_) => "ok".to_string(),
                Err(AcceptError::Abort { reason, .. }) => format!("abort:{reason:?}"),
                Err(e) => format!("error(names-document={})", e.namespace().is_some()),
            };
            let mut guard = resp.lock().await;
            guard.coord.on_sync_via_accept_finished(result).await;
            let after = guard.coord.snapshot(nsid, init_id).map(|s| s.0);
            // specification: the accepted session that is in progress is still in progress
            let want = if syncing { "running-session-still-in-progress" } else { "not-syncing-no-slot-taken" };
            let got = if syncing {
                if before == Some(2) && after == Some(2) { want.to_string() } else { format!("slot-before={before:?}-after={after:?}-dialer-saw={seen}-acceptor-reported={shown}").replace(' ', "_") }
            } else if matches!(after, None | Some(0)) {
                want.to_string()
            } else {
                format!("slot-after={after:?}-acceptor-reported={shown}").replace(' ', "_")
            };
            lines.push(Line::oracle(format!("sconst {want}"), got));
            if syncing {
                // … and is freed when it ends
                guard.coord.on_sync_via_accept_finished(Ok(SyncFinished { namespace: nsid, peer: init_id, outcome: SyncOutcome::default(), timings: Default::default() })).await;
                let end = guard.coord.snapshot(nsid, init_id).map(|s| s.0);
                lines.push(Line::oracle("sconst slot-freed-when-the-session-ends", if end == Some(0) { "slot-freed-when-the-session-ends".to_string() } else { format!("slot-after-the-end={end:?}").replace(' ', "_") }));
            }
            drop(guard);
            ep_init.close().await;
            ep_resp.close().await;
            let _ = h_init.shutdown().await;
            let _ = h_resp.shutdown().await;
            Ok(())
        });
        res?;
        Ok(lines)
    }
    fn features(&self, ops: &[Op], lines: &[Line]) -> Vec<String> {
        let mut f = vec![];
        if let Some(Op::Case { syncing, dialer }) = ops.first() {
            f.push(format!("acceptor-syncs:{}", *syncing as u8));
            f.push(format!("dialer:{dialer}"));
        }
        for l in lines {
            f.push(format!("spec:{}", l.op.split(' ').nth(1).unwrap_or("")));
        }
        f.sort();
        f.dedup();
        f
    }
    fn nontrivial(&self, ops: &[Op], _lines: &[Line]) -> bool {
        matches!(ops.first(), Some(Op::Case { dialer, .. }) if *dialer != 0)
    }
}
