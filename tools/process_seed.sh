#!/bin/bash
# confirm a sub-agent's seed in its scratch worktree, store it, remove the worktree, run checks against it
# usage: tools/process_seed.sh /tmp/seed7 C05 7 C05 [more checks...]
set -u
root=$1; p=$2; n=$3; shift 3
cd /verif
out=$root/$p.confirm
tools/confirm_seed.sh $root/$p > $out 2>&1
mkdir -p seeded/$p-$n
cp $root/$p/SEED/patch.diff $root/$p/SEED/demo.rs $root/$p/SEED/README.md seeded/$p-$n/ 2>/dev/null
cp $out seeded/$p-$n/confirm.txt
git -C /repo worktree remove --force $root/$p
echo "== confirm $p-$n"; cat $out
tools/run_seed.sh seeded/$p-$n "$@"
