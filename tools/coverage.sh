#!/bin/bash
# Which lines of /repo/src does the correspondence harness execute?  (supporting evidence for the
# tie between model and code: code that no harness case runs is neither modelled nor compared.)
# Builds the harness with -C instrument-coverage on the nightly toolchain (its llvm-tools match),
# runs every property's quick harness, merges the profiles and writes
#   /verif/notes/coverage.txt        per-file line/region/function coverage of /repo/src
#   /verif/notes/coverage-uncovered.txt  functions of /repo/src never entered
# Scratch data lives under /tmp/cov and is removed at the end (keep with KEEP=1).
set -u
W=/tmp/cov
TOOLS=$(dirname "$(find /root/.rustup/toolchains/nightly-x86_64-unknown-linux-gnu -name llvm-cov -type f | head -1)")
mkdir -p $W/prof /verif/notes
cd /verif/harness
LLVM_PROFILE_FILE=$W/build-%p-%m.profraw RUSTFLAGS="--cfg iroh_docs_verif -C instrument-coverage" CARGO_TARGET_DIR=$W/target cargo +nightly build --offline 2>&1 | tail -1
rm -f $W/build-*.profraw
(cd /verif/lean && lake build docsmodel >/dev/null 2>&1)
EXE=$W/target/debug/verif-harness
TIER=${1:-quick}
for p in C01 C02 C03 C04 C05 C06 C07 C08 C09 C10 C11 C12 C13 C14 C15 C16 C17 C18; do
  LLVM_PROFILE_FILE="$W/prof/$p-%p-%m.profraw" VERIF_BUDGET_SECS=${COV_BUDGET:-100} $EXE $p --tier $TIER --seed 1 --replay-dir $W/replays --out $W/$p.json 2>&1 | grep -E "^harness" | cut -c1-160
done
$TOOLS/llvm-profdata merge -sparse $W/prof/*.profraw -o $W/all.profdata
$TOOLS/llvm-cov report $EXE -instr-profile=$W/all.profdata --ignore-filename-regex='(\.cargo|rustc|/verif/)' 2>/dev/null \
  | sed 's#/repo/##' > /verif/notes/coverage.txt
$TOOLS/llvm-cov show $EXE -instr-profile=$W/all.profdata --ignore-filename-regex='(\.cargo|rustc|/verif/)' 2>/dev/null > $W/show.txt
python3 /verif/tools/coverage_uncovered.py
[ "${KEEP:-0}" = 1 ] || rm -rf $W
head -60 /verif/notes/coverage.txt
