#!/bin/bash
# prepare a round of seeded changes: scratch worktrees of /repo, the property text for each, the list of
# ideas already tried (from seeded/*/meta.json) and the prompt for the sub-agents
# usage: tools/new_round.sh <round-number> C01 C02 ...      (creates /tmp/seed<round>/<Cxx>)
set -eu
n=$1; shift
root=/tmp/seed$n
mkdir -p $root
python3 - $root <<'PY'
import json,glob,os,sys
out=[]
for d in sorted(glob.glob('/verif/seeded/*')):
    m=os.path.join(d,'meta.json')
    if os.path.exists(m):
        out.append(f"- {os.path.basename(d)}: {json.load(open(m)).get('summary','?')}")
open(sys.argv[1]+'/ideas_tried.txt','w').write('\n'.join(out)+'\n')
PY
sed "s#@ROOT@#$root#g" /verif/tools/seed_prompt.txt > $root/PROMPT.txt
for p in "$@"; do
  git -C /repo worktree add --detach $root/$p HEAD >/dev/null
  mkdir -p $root/$p/SEED
  python3 - $p $root <<'PY'
import json,sys
pid,root=sys.argv[1],sys.argv[2]
for l in open('/verif/properties.jsonl'):
    p=json.loads(l)
    if p['id']==pid:
        open(f'{root}/{pid}/SEED/property.json','w').write(json.dumps(p,indent=1))
PY
done
echo "prepared $root: give each sub-agent: 'Read $root/PROMPT.txt, substitute @ID@ by <Cxx>'"
