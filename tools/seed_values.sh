#!/bin/bash
# run every quick check with several values of VERIF_SEED on the unchanged tree: none may alarm
cd /verif
: > tools/seed_values.out
for seed in ${@:-2 3 4 5}; do
  for p in C01 C02 C03 C04 C05 C06 C07 C08 C09 C10 C11 C12 C13 C14 C15 C16 C17 C18; do
    res=$(VERIF_SEED=$seed bin/check $p quick 2>&1 | grep -E "^VIOLATION|^check " | head -3 | tr '\n' ' ')
    echo "seed=$seed $p :: $res" >> tools/seed_values.out
  done
done
echo done >> tools/seed_values.out
grep -c VIOLATION tools/seed_values.out
