#!/bin/bash
# confirm a sub-agent's seeded change in its scratch worktree (change + demonstration applied):
#   A: changed code  -> the baseline tests pass, only the demonstration fails
#   B: original code (patch reverted) -> everything passes
# usage: tools/confirm_seed.sh /tmp/seedN/Cxx
set -u
d=$1
cd $d || exit 2
run() { CARGO_NET_OFFLINE=true cargo nextest run --workspace --no-fail-fast --tool-config-file pb:/w/lib/nextest.toml --profile pb --test-threads 8 --offline 2>&1 | grep -E "^\s+(FAIL|Summary)|tests run" | sort -u | head -12; }
echo "== A (changed + demo)"; run
git apply -R SEED/patch.diff || { echo "cannot revert patch"; exit 1; }
echo "== B (original + demo)"; run
git apply SEED/patch.diff
git -C /repo apply --check $d/SEED/patch.diff && echo "patch applies to /repo: yes"
