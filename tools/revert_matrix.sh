#!/bin/bash
# Sanity of the checks: revert each repair in /repo's working tree (never committed), run the quick
# checks of the properties it concerns, restore. Not a registered check; writes tools/revert_matrix.out
set -u
cd /verif
out=tools/revert_matrix.out
: > $out
run() { # name props... ; the revert has been applied
  name=$1; shift
  for p in "$@"; do
    res=$(bin/check $p quick 2>&1 | grep -E "^VIOLATION|^KNOWN|^check " | head -3 | tr '\n' ' ')
    echo "$name $p :: $res" >> $out
  done
  git -C /repo checkout -- .
}
rev() { git -C /repo show $1 -- src | git -C /repo apply -R || echo "REVERT-FAILED $1" >> $out; }
git -C /repo status --short | grep -q . && { echo "repo dirty"; exit 1; }
rev 20cb716; run F1 C01 C02 C04 C08 C12
rev 06a547d; run F2 C01 C02 C05 C08 C16
rev 51cf6b7; run F3 C03
rev a135e7f; run F4 C13 C18
rev be33273; run F5 C13
rev 3803d03; run F12 C13
rev 15d3f96; run F6 C16 C13
rev 8a582cd; run F7 C10
rev ea6d16c; run F8 C09 C10
sed -i 's/self.store.as_mut().modify_in_current(|tables| {/self.store.as_mut().modify(|tables| {/' /repo/src/store/fs.rs; run F10 C06
rev 74df0f3; run F13 C05
rev 1ca0fd8; run F14 C10 C14
rev b45e230; run F9 C11
# restore evidence of the clean tree
for p in C01 C02 C03 C04 C05 C06 C08 C09 C10 C11 C12 C13 C14 C16 C18; do bin/check $p quick > /dev/null 2>&1 || echo "CLEAN-RUN-FAILED $p" >> $out; done
echo done >> $out
