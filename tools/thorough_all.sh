#!/bin/bash
cd /verif
: > tools/thorough_all.out
for p in C01 C02 C03 C04 C05 C06 C07 C08 C09 C10 C11 C12 C13 C14 C15 C16 C17 C18; do
  s=$(date +%s)
  res=$(bin/check $p thorough 2>&1 | grep -E "^VIOLATION|^KNOWN|^check " | head -3 | tr '\n' ' ')
  e=$(date +%s)
  echo "$p $((e-s))s :: $res" >> tools/thorough_all.out
done
echo done >> tools/thorough_all.out
