#!/bin/bash
# run a list of "seed:check,check" pairs one after another (the repository is patched and restored per seed)
# usage: tools/run_round.sh C10-6:C10,C14 C11-6:C11 ...
cd /verif
for item in "$@"; do
  seed=${item%%:*}; checks=${item#*:}
  tools/run_seed.sh seeded/$seed ${checks//,/ }
done
echo round-finished
