#!/bin/bash
# apply a seeded change to /repo's working tree (never committed), run the given checks, undo.
# usage: tools/run_seed.sh seeded/<name> C01 C08 ...
set -u
cd /verif
dir=$1; shift
git -C /repo status --short | grep -q . && { echo "repo dirty"; exit 1; }
git -C /repo apply /verif/$dir/patch.diff || { echo "patch does not apply"; exit 1; }
for p in "$@"; do
  res=$(bin/check $p quick 2>&1 | grep -E "^VIOLATION|^KNOWN|^check " | head -4 | tr '\n' ' ')
  echo "$(basename $dir) $p :: $res"
done
git -C /repo checkout -- .
git -C /verif checkout -- evidence   # evidence written on a changed tree is not evidence
git -C /repo status --short
