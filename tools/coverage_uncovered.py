import re, collections
cur = None
zero = collections.defaultdict(list)
for line in open('/tmp/cov/show.txt', errors='replace'):
    m = re.match(r'^(/repo/src/\S+):$', line.strip())
    if m:
        cur = m.group(1).replace('/repo/', '')
        continue
    m = re.match(r'^\s*(\d+)\|\s*([0-9.kMG]+)?\|(.*)$', line)
    if m and cur:
        n = int(m.group(1)); c = m.group(2); code = m.group(3)
        if c is not None and c == '0':
            zero[cur].append((n, code))
with open('/verif/notes/coverage-uncovered.txt', 'w') as o:
    o.write('# source lines of /repo/src with an execution count of 0 under the quick harness runs (ranges of 3 or more lines; first line shown)\n')
    for f in sorted(zero):
        o.write(f'\n{f}: {len(zero[f])} lines never executed\n')
        rng = []
        for n, code in zero[f]:
            if rng and n == rng[-1][1] + 1:
                rng[-1][1] = n
            else:
                rng.append([n, n, code.strip()])
        for a, b, code in rng:
            if b - a >= 2:
                o.write(f'  {a}-{b}: {code[:100]}\n')
