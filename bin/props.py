"""Per-property configuration of bin/check."""

COMMON_TRUST = [
    "Lean 4.33 kernel; axioms propext, Classical.choice, Quot.sound only (audited per theorem with #print axioms; no sorry/admit/native_decide/bv_decide/axiom)",
    "the hand-written Lean model's fidelity to /repo, as far as the differential correspondence harness (real crate built from the working tree vs compiled Lean model, same operation lines) validates it",
    "the Rust harness and the Lean driver's parsing/printing; the Lean compiler for the driver executable only",
]

PROPS = {
    "C02": {
        "lean_modules": ["DocsModel.Props.C02"],
        "trusted_base": COMMON_TRUST + [
            "redb (ordered tables, transactions) is modelled as an ordered map, not verified",
            "hook H1 (clock override) so that local insert/delete timestamps are chosen by the harness",
        ],
        "assumptions": [
            "PayloadFunctional: offered entries equal in namespace, author, key, timestamp and hash are equal (known finding F11 is the excluded point)",
            "'valid' is relative to the clock at offer time; every generated entry is validly signed and within the future bound",
        ],
    },
    "C05": {
        "lean_modules": ["DocsModel.Props.C05"],
        "trusted_base": COMMON_TRUST + [
            "redb tables are modelled as sorted lists whose range() is the in-order filter by the bounds (element-wise tuple comparison, lexicographic byte strings); redb itself is not verified",
        ],
        "assumptions": [
            "namespace and author ids are 32 bytes (what the crate's types guarantee)",
            "the equation query = spec for every TablesInv state is validated by the correspondence check (model line and specification line per query); the Lean file proves the window law, the filter predicates, exactness of the prefix scan bounds and the selector's no-invention law",
        ],
    },
}
