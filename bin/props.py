"""Per-property configuration of bin/check."""

COMMON_TRUST = [
    "Lean 4.33 kernel; axioms propext, Classical.choice, Quot.sound only (audited per theorem with #print axioms; no sorry/admit/native_decide/bv_decide/axiom)",
    "the hand-written Lean model's fidelity to /repo, as far as the differential correspondence harness (real crate built from the working tree vs compiled Lean model, same operation lines) validates it",
    "the Rust harness and the Lean driver's parsing/printing; the Lean compiler for the driver executable only",
]

PROPS = {
    "C02": {
        "lean_modules": ["DocsModel.Props.C02"],
        "trusted_base": COMMON_TRUST + [
            "redb (ordered tables, transactions) is modelled as an ordered map, not verified",
            "hook H1 (clock override) so that local insert/delete timestamps are chosen by the harness",
        ],
        "assumptions": [
            "PayloadFunctional: offered entries equal in namespace, author, key, timestamp and hash are equal (known finding F11 is the excluded point)",
            "'valid' is relative to the clock at offer time; every generated entry is validly signed and within the future bound",
        ],
    },
    "C04": {
        "lean_modules": ["DocsModel.Props.C04", "DocsModel.Props.C04Link", "DocsModel.Props.Live", "DocsModel.Props.LiveGossip", "DocsModel.Props.C04Gossip", "DocsModel.Props.C04Deliver"],
        "trusted_base": COMMON_TRUST + [
            "live-actor component (harness/src/live.rs, Model/Live.lean, Props/Live.lean, hook H9): one real live actor whose loop does not run; every handler the loop dispatches to (start_sync, leave, Subscribe, NeighborUp/Down, on_replica_event, start_download, on_download_ready, on_neighbor_content_ready, on_sync_report, accept_sync_request, sync_with_peer, the three completion handlers) is called by the harness and compared after every call with the model: dials, gossip messages handed to an active topic, requests handed to the downloader, events per subscriber, replies, and the whole book-keeping (documents, topics, both maps of the download queue, missing hashes, providers, every slot, the useful peers in the store); each property compares the fields it is about; gossip delivery, the downloader and the task futures are played by the harness",
            "redb tables are modelled as sorted lists whose range() is the in-order filter by the bounds; redb itself is not verified",
            "the gossip transport (iroh-gossip) and the network are not modelled: a broadcast is the delivery of an accepted local write to insert_remote_entry, which is what engine/gossip.rs::receive_loop does with an Op::Put; the harness calls the same function with the same arguments",
            "whole-stack component: 2-3 real docs nodes (live actor loop, engine/gossip.rs, net.rs, router, iroh-gossip, QUIC over loopback) driven through the client API; the runtime decides the schedule, so only the specification is compared there (final states = join of all writes, no foreign entries); convergence is waited for with a time bound (VERIF_C04SYS_SECS, default 30 s, then one forced round of explicit syncs and 4x the bound; on an idle machine every case settles in well under a second)",
            "hooks H1 (per-replica clocks), H2 (reconciliation parameters), H2c (event subscription on a Replica)",
        ],
        "assumptions": [
            "PayloadFunctional on the set of written entries: two local writes with the same author, key, timestamp and content hash are the same entry (true of honest writers: Ed25519 signatures are deterministic) - the exclusion is F11",
            "the step `session i j` of the swarm model sets both replicas to the merge of their states: step_session_is_protocol_session proves that this is exactly the pair of final states of the message-level session of the protocol model (C01 session_total, split factor 2, all entries valid for both sides, injective fingerprints); the real sessions are compared message by message inside this harness as well",
            "at the closing round every timestamp is within every replica's future bound (C03 obliges a replica whose clock is more than ten minutes behind to reject; during the history such rejections are exercised and modelled as losses)",
            "outside the closing round nothing is assumed about sessions ending: a session that does not end within the message budget counts as cut (observed only with split_factor > 2 when one side keeps rejecting the other's entries; see DESIGN.md, observation O1)",
        ],
    },
    "C05": {
        "lean_modules": ["DocsModel.Props.C05", "DocsModel.Props.C05Refine", "DocsModel.Props.Node"],
        "trusted_base": COMMON_TRUST + [
            "whole-node component (harness/src/apinode.rs, Model/Node.lean, Props/Node.lean): one real in-memory docs node (DocsApi/Doc -> RpcActor -> Engine and live actor -> store actor -> store) driven by one sequential client; every handler of src/api/actor.rs that needs no second node, Engine::{start_sync, leave, subscribe}, the default author, and the protection callback of gc_protect_task are modelled by hand and compared on every run; the theorems of Props/Node.lean lift this property to every history of client requests (node_getMany_eq_spec, node_policy_persists, node_setPolicy, node_peers_run, node_peers_eq_mru5, node_drop_erases, node_drop_frames, node_hashes_exact, node_openInv_reachable, write_events_exact, sub_survives); not modelled there: gossip and connections (no second node), blob import/export, iroh-gossip, irpc delivery (in-process channel, requests handled in order)",
            "redb tables are modelled as sorted lists whose range() is the in-order filter by the bounds (element-wise tuple comparison, lexicographic byte strings); redb itself is not verified",
        ],
        "assumptions": [
            "namespace and author ids are 32 bytes (what the crate's types guarantee)",
            "query = spec is proved for every reachable state of the tables (query_eq_spec, query_eq_spec_reachable): both index paths, all author/key filters, both sort orders and directions, latest-per-key with the author and deletion-marker filters applied to the winner, offset and limit; the specification QuerySpec.spec mentions no tables, bounds or indexes; model line and specification line are still compared with the real get_many for every generated query",
            "author ids in queries are 32 bytes",
        ],
    },
    "C06": {
        "lean_modules": ["DocsModel.Props.C06"],
        "trusted_base": COMMON_TRUST + [
            "redb's commit is atomic and a reopened database shows exactly the last committed transaction (redb's recovery is trusted, not modelled); the model's `durable` component is that committed image",
            "hook H5 (Store::verif_access) counts the tables()/modify() accesses and lets the harness decide at which access the open write transaction counts as older than MAX_COMMIT_DELAY; hook H1 supplies the clock",
            "a crash is taken as a byte copy of the database file made while the store is still open (what the file system holds at that instant); torn sector writes below redb's own checksummed commit protocol are not exercised",
        ],
        "assumptions": [
            "operations are the store-level ones listed in Txn.Op (remote insert incl. prefix pruning, import, remove, peer registration, policy, flush, reads through tables()/snapshot()/snapshot_owned()); each is modelled as its sequence of store accesses, validated access-for-access by the correspondence check (access counter compared)",
        ],
    },
    "C07": {
        "lean_modules": ["DocsModel.Props.C07", "DocsModel.Props.C07Api"],
        "trusted_base": COMMON_TRUST + ["redb tables are modelled as sorted lists whose range() is the in-order filter by the bounds (element-wise tuple comparison, lexicographic byte strings); redb itself is not verified",],
        "assumptions": [
            "the namespace id supplied with a write capability is the public key of its secret (Ed25519 key derivation is outside the model)",
            "the copy of the capability held by an open replica inside the store actor is covered by C14 (OpenInv) and lifted to the client API handlers in Props/C07Api.lean (api_import_write, api_write_after_import, api_import_read_keeps_write); the handlers of src/api/actor.rs are modelled by hand (Model/Rpc.lean) and tied to the real DocsApi by the client-API part of the harness",
            "client API path: documents are never joined to live sync (start_sync / share are not exercised), irpc's in-process channel delivers requests in order",
        ],
    },
    "C13": {
        "lean_modules": ["DocsModel.Props.C13", "DocsModel.Props.C13Codec"],
        "trusted_base": COMMON_TRUST + ["redb tables are modelled as sorted lists whose range() is the in-order filter by the bounds (element-wise tuple comparison, lexicographic byte strings); redb itself is not verified",
            "postcard is modelled (LEB128 varints of at most 10 bytes, raw 32-byte arrays, trailing bytes ignored)"],
        "assumptions": [
            "ids are 32 bytes; timestamps fit in 64 bits",
            "decode(encode(h, None)) = h is proved for every head map with 32-byte authors and 64-bit timestamps (Heads.decode_encode); the size-limited encoder is proved to keep a prefix of the newest-first list that is maximal under the limit and never to exceed it; the specification line hkept compares the real encoder/decoder with that on every run",
        ],
    },
    "C15": {
        "lean_modules": ["DocsModel.Props.C15", "DocsModel.Props.Node", "DocsModel.Props.Live", "DocsModel.Props.C15Engine", "DocsModel.Props.LiveDownloads"],
        "trusted_base": COMMON_TRUST + [
            "live-actor component (harness/src/live.rs, Model/Live.lean, Props/Live.lean, hook H9): one real live actor whose loop does not run; every handler the loop dispatches to (start_sync, leave, Subscribe, NeighborUp/Down, on_replica_event, start_download, on_download_ready, on_neighbor_content_ready, on_sync_report, accept_sync_request, sync_with_peer, the three completion handlers) is called by the harness and compared after every call with the model: dials, gossip messages handed to an active topic, requests handed to the downloader, events per subscriber, replies, and the whole book-keeping (documents, topics, both maps of the download queue, missing hashes, providers, every slot, the useful peers in the store); each property compares the fields it is about; gossip delivery, the downloader and the task futures are played by the harness",
            "whole-node component (harness/src/apinode.rs, Model/Node.lean, Props/Node.lean): one real in-memory docs node (DocsApi/Doc -> RpcActor -> Engine and live actor -> store actor -> store) driven by one sequential client; every handler of src/api/actor.rs that needs no second node, Engine::{start_sync, leave, subscribe}, the default author, and the protection callback of gc_protect_task are modelled by hand and compared on every run; the theorems of Props/Node.lean lift this property to every history of client requests (node_getMany_eq_spec, node_policy_persists, node_setPolicy, node_peers_run, node_peers_eq_mru5, node_drop_erases, node_drop_frames, node_hashes_exact, node_openInv_reachable, write_events_exact, sub_survives); not modelled there: gossip and connections (no second node), blob import/export, iroh-gossip, irpc delivery (in-process channel, requests handled in order)","redb tables are modelled as sorted lists whose range() is the in-order filter by the bounds (element-wise tuple comparison, lexicographic byte strings); redb itself is not verified",],
        "assumptions": ["UTF-8 validity of filter bytes is decided outside the model (passed as a flag); ':' is ASCII so str::split_once is a byte-level split"],
    },
    "C16": {
        "lean_modules": ["DocsModel.Props.C16", "DocsModel.Props.C14", "DocsModel.Props.Node"],
        "trusted_base": COMMON_TRUST + [
            "whole-node component (harness/src/apinode.rs, Model/Node.lean, Props/Node.lean): one real in-memory docs node (DocsApi/Doc -> RpcActor -> Engine and live actor -> store actor -> store) driven by one sequential client; every handler of src/api/actor.rs that needs no second node, Engine::{start_sync, leave, subscribe}, the default author, and the protection callback of gc_protect_task are modelled by hand and compared on every run; the theorems of Props/Node.lean lift this property to every history of client requests (node_getMany_eq_spec, node_policy_persists, node_setPolicy, node_peers_run, node_peers_eq_mru5, node_drop_erases, node_drop_frames, node_hashes_exact, node_openInv_reachable, write_events_exact, sub_survives); not modelled there: gossip and connections (no second node), blob import/export, iroh-gossip, irpc delivery (in-process channel, requests handled in order)","redb tables are modelled as sorted lists whose range() is the in-order filter by the bounds (element-wise tuple comparison, lexicographic byte strings); redb itself is not verified",],
        "assumptions": ["all namespace and author ids are 32 bytes (Wf32)"],
    },
    "C17": {
        "lean_modules": ["DocsModel.Props.C17", "DocsModel.Props.Node", "DocsModel.Props.Live"],
        "trusted_base": COMMON_TRUST + [
            "live-actor component (harness/src/live.rs, Model/Live.lean, Props/Live.lean, hook H9): one real live actor whose loop does not run; every handler the loop dispatches to (start_sync, leave, Subscribe, NeighborUp/Down, on_replica_event, start_download, on_download_ready, on_neighbor_content_ready, on_sync_report, accept_sync_request, sync_with_peer, the three completion handlers) is called by the harness and compared after every call with the model: dials, gossip messages handed to an active topic, requests handed to the downloader, events per subscriber, replies, and the whole book-keeping (documents, topics, both maps of the download queue, missing hashes, providers, every slot, the useful peers in the store); each property compares the fields it is about; gossip delivery, the downloader and the task futures are played by the harness",
            "whole-node component (harness/src/apinode.rs, Model/Node.lean, Props/Node.lean): one real in-memory docs node (DocsApi/Doc -> RpcActor -> Engine and live actor -> store actor -> store) driven by one sequential client; every handler of src/api/actor.rs that needs no second node, Engine::{start_sync, leave, subscribe}, the default author, and the protection callback of gc_protect_task are modelled by hand and compared on every run; the theorems of Props/Node.lean lift this property to every history of client requests (node_getMany_eq_spec, node_policy_persists, node_setPolicy, node_peers_run, node_peers_eq_mru5, node_drop_erases, node_drop_frames, node_hashes_exact, node_openInv_reachable, write_events_exact, sub_survives); not modelled there: gossip and connections (no second node), blob import/export, iroh-gossip, irpc delivery (in-process channel, requests handled in order)","redb tables are modelled as sorted lists whose range() is the in-order filter by the bounds (element-wise tuple comparison, lexicographic byte strings); redb itself is not verified",
            "hook H1 (clock override) supplies the registration times"],
        "assumptions": ["registration times are strictly increasing (two registrations in the same nanosecond are the excluded point)"],
    },
    "C18": {
        "lean_modules": ["DocsModel.Props.C18"],
        "trusted_base": COMMON_TRUST + [
            "redb tables are modelled as sorted lists; deleting a table with plain redb is modelled as emptying it; migrations 002/003 (pre-0.1 namespace table) are not modelled",
        ],
        "assumptions": ["ties on the greatest timestamp: the rebuilt head names the key last in table order, the maintained head the key inserted last; both carry the same timestamp"],
    },
    "C01": {
        "lean_modules": ["DocsModel.Props.C01", "DocsModel.Props.C01Converge", "DocsModel.Props.C01Terminate", "DocsModel.Props.C01Tables"],
        "trusted_base": COMMON_TRUST + [
            "redb tables modelled as sorted lists (range = in-order filter by the bounds)",
            "BLAKE3 entry fingerprints are supplied by the harness with each entry; the model XORs them as the code does",
            "hooks H1 (clock), H2 (reconciliation parameter override), H2c (subscribe to a replica to observe inserted entries)",
        ],
        "assumptions": [
            "messages are delivered intact and in order; every entry passes both sides' validation",
            "PayloadFunctional (F11 excluded)",
            "FpInjective (hypothesis of session_converges): two different sets of entries of the two replicas never have the same XOR-of-BLAKE3 range fingerprint (BLAKE3 is outside the model; satisfiable: fpInjective_example)",
            "session_converges is proved on the ordered-map backend (mapOps) for every split_factor >= 2 and max_set_size and both initiators: IF the session ends THEN both replicas equal join(A0 u B0) = run [] (A0 ++ B0); the redb tables refine that backend primitive by primitive (C08 theorems) and message by message in the correspondence check",
            "termination is proved for split_factor = 2 (the only value the crate uses): session_terminates, within 3^(|A|+|B|+1)+1 messages (a crude bound); session_total and session_total_tables combine it with convergence, the latter on the table model through C08's session_congr. For split_factor >= 3 termination is not claimed (DESIGN.md O1) and, like the linear budget 4(|A|+|B|)+8 and the silent second session for every setting, is checked by the correspondence harness on every run",
        ],
    },
    "C08": {
        "lean_modules": ["DocsModel.Props.C08", "DocsModel.Props.C08Congr"],
        "trusted_base": COMMON_TRUST + [
            "redb tables modelled as sorted lists (range = in-order filter by the bounds; tuple keys compare element-wise)",
            "BLAKE3 entry fingerprints supplied by the harness; hook H2 (parameter override and the in-crate BTreeMap backend driven by the crate's own process_message)",
        ],
        "assumptions": [
            "range endpoints are identifiers of the replica's document or the range is (x, x) — what honest peers send; a crafted range with endpoints in other documents scans foreign rows (reported in DESIGN, outside the property)",
            "ids are 32 bytes",
            "equality of whole transcripts follows from equality of the primitives because process_message uses the store only through them; the lifted statement (processMessage_congr) is validated by the four-backend correspondence check, not yet a theorem",
        ],
    },
    "C03": {
        "lean_modules": ["DocsModel.Props.C03"],
        "trusted_base": COMMON_TRUST + [
            "Ed25519 (iroh::PublicKey::verify = verify_strict) is not modelled: whether a signature verifies is a field of the model's entry; in the harness the ground truth is by construction (which key signed which bytes), never the crate's verify",
            "hook H1 (clock at the exact future-bound boundary), H2c (subscriber to observe announcements)",
        ],
        "assumptions": [
            "unforgeability of Ed25519 is not claimed: 'authentic' means the signatures verify over exactly the entry's canonical bytes",
            "now + 600 s does not overflow 64 bits",
        ],
    },
    "C12": {
        "lean_modules": ["DocsModel.Props.C12", "DocsModel.Props.Node"],
        "trusted_base": COMMON_TRUST + [
            "whole-node component (harness/src/apinode.rs, Model/Node.lean, Props/Node.lean): one real in-memory docs node (DocsApi/Doc -> RpcActor -> Engine and live actor -> store actor -> store) driven by one sequential client; every handler of src/api/actor.rs that needs no second node, Engine::{start_sync, leave, subscribe}, the default author, and the protection callback of gc_protect_task are modelled by hand and compared on every run; the theorems of Props/Node.lean lift this property to every history of client requests (node_getMany_eq_spec, node_policy_persists, node_setPolicy, node_peers_run, node_peers_eq_mru5, node_drop_erases, node_drop_frames, node_hashes_exact, node_openInv_reachable, write_events_exact, sub_survives); not modelled there: gossip and connections (no second node), blob import/export, iroh-gossip, irpc delivery (in-process channel, requests handled in order)",
            "async_channel delivery (an accepted send is received once, in order) and the store actor's sequential processing are trusted",
            "hook H1 (process-global clock: the actor runs on its own thread)",
        ],
        "assumptions": [
            "a channel is subscribed at most once (subscribing the same sender twice delivers every event twice; the model reproduces it, the theorems exclude it)",
            "receivers are drained after every acknowledged request, so channels never fill up",
        ],
    },
    "C14": {
        "lean_modules": ["DocsModel.Props.C14", "DocsModel.Props.Node", "DocsModel.Props.NodeLive"],
        "trusted_base": COMMON_TRUST + [
            "whole-node component (harness/src/apinode.rs, Model/Node.lean, Props/Node.lean): one real in-memory docs node (DocsApi/Doc -> RpcActor -> Engine and live actor -> store actor -> store) driven by one sequential client; every handler of src/api/actor.rs that needs no second node, Engine::{start_sync, leave, subscribe}, the default author, and the protection callback of gc_protect_task are modelled by hand and compared on every run; the theorems of Props/Node.lean lift this property to every history of client requests (node_getMany_eq_spec, node_policy_persists, node_setPolicy, node_peers_run, node_peers_eq_mru5, node_drop_erases, node_drop_frames, node_hashes_exact, node_openInv_reachable, write_events_exact, sub_survives); not modelled there: gossip and connections (no second node), blob import/export, iroh-gossip, irpc delivery (in-process channel, requests handled in order)",
            "async_channel is FIFO with a single consumer, so the order in which requests enter the queue (recorded at the send site on a single-threaded runtime) is the order in which the actor handles them",
            "hook H1 (process-global clock, held constant so that outcomes depend on queue order only)",
        ],
        "assumptions": [
            "real thread scheduling is not modelled: the model is run on the recorded total order of each execution",
            "get_many streams and the subscriber channels are drained / kept alive by the harness",
        ],
    },
    "C09": {
        "lean_modules": ["DocsModel.Props.C09", "DocsModel.Props.C09Chunks", "DocsModel.Props.C09Gossip"],
        "trusted_base": COMMON_TRUST + [
            "postcard 1.1.3 and the serde derives are modelled (layout read from the sources and confirmed by the differential check), not verified; tokio_util FramedRead is modelled as 'append chunk, decode while possible'",
            "hook H3 (export of the private frame codec)",
        ],
        "assumptions": [
            "'never a panic on arbitrary bytes' cannot be a Lean theorem (the Lean decoders are total by construction): it rests on the differential fuzz stream under catch_unwind — partial",
            "DocTicket, Capability, DownloadPolicy, key types and third-party Deserialize impls (EndpointAddr, RelayUrl) have no Lean model: only no-panic and accept/reject stability are exercised",
            "the statement 'any chunking of the concatenated frames yields exactly the frames' is checked by the harness at every split point and on random chunkings; the Lean file proves its two ingredients (a complete frame decodes to itself leaving the rest; every proper prefix of a frame is 'need more')",
        ],
    },
    "C10": {
        "lean_modules": ["DocsModel.Props.C10", "DocsModel.Props.C10Pair", "DocsModel.Props.C10Converge", "DocsModel.Props.C10Actor"],
        "trusted_base": COMMON_TRUST + [
            "tokio scheduling, tokio::io::duplex, tokio_util::codec framing and the real quic streams are not modelled; the model is a function of the finite frame list the peer sends",
            "hook H3 (export of run_alice, BobState and the frame codec); H1 (global clock)",
        ],
        "assumptions": [
            "a peer that keeps the stream open and silent is outside the quantifier (streams are finite frame lists followed by a close)",
            "the local failure is injected between two messages (lockstep with the scripted peer); failures in the middle of a store call are not modelled",
        ],
    },
    "C11": {
        "lean_modules": ["DocsModel.Props.C11", "DocsModel.Props.C11One", "DocsModel.Props.C11Net", "DocsModel.Props.Live", "DocsModel.Props.LiveGossip", "DocsModel.Props.C11Live", "DocsModel.Props.LiveWf"],
        "trusted_base": COMMON_TRUST + [
            "live-actor component (harness/src/live.rs, Model/Live.lean, Props/Live.lean, hook H9): one real live actor whose loop does not run; every handler the loop dispatches to (start_sync, leave, Subscribe, NeighborUp/Down, on_replica_event, start_download, on_download_ready, on_neighbor_content_ready, on_sync_report, accept_sync_request, sync_with_peer, the three completion handlers) is called by the harness and compared after every call with the model: dials, gossip messages handed to an active topic, requests handed to the downloader, events per subscriber, replies, and the whole book-keeping (documents, topics, both maps of the download queue, missing hashes, providers, every slot, the useful peers in the store); each property compares the fields it is about; gossip delivery, the downloader and the task futures are played by the harness",
            "the network and the tokio tasks are replaced by the model's scheduler: a connect/accept task is alive from its spawn until the live actor has processed its completion; requests are delivered or lost; the two ends of a session complete independently",
            "hook H4 (the live actor's coordination handlers called directly on real LiveActor instances with real endpoints; dials recorded instead of performed)",
        ],
        "assumptions": [
            "two nodes and one document (the state is kept per document and per peer, independent of other documents and peers)",
            "'a session is in progress until either side has finished it' (the property's own definition)",
        ],
    },
}
